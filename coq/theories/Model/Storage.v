(* Model of snapshot/src/storage.rs (Storage), snapshot/src/manager.rs (Manager) and of the
   sender loop of server/src/main.rs (send_snapshots for one peer), on top of Model/Snap.v
   (snapshots, deltas, builder) and Model/Receiver.v (delta_chunks, DeltaReceiver); plus a small
   link model: one sender, one receiving Manager, a lossy / duplicating / reordering channel for
   snapshot messages and one for acknowledgements.  Definitions only; proofs live in
   Proofs/Storage*.v.

   Conventions: ticks are Z (i32 values); VecDeque<StoredSnap> is a list, newest first; the Vec
   `free` is a list whose HEAD is the LAST element of the Vec (push = cons, pop = tail).  Every
   unwrap of the code that is syntactically reachable is a `Panic site`.

   One gap, marked FDirty: when Snap::read_with_delta fails inside Storage::add_delta, the half
   written snapshot stays on top of `free`.  Its contents matter only if the same Storage is later
   used through new_builder (recycle); the model does not track them and answers OutOfFuel
   ("not modelled") there.  A Storage is used either as a sender (new_builder / add_snap /
   set_delta_tick) or inside a Manager (add_delta), never both. *)
From LibTw2 Require Export Base.Res Model.Varint Model.Snap.
From LibTw2 Require Export Gen.StorageConsts.   (* the two constants, translated from storage.rs / main.rs *)
From LibTw2 Require Model.Receiver.
Open Scope Z_scope.

(* ---------- panic sites ---------- *)
Definition site_free_unwrap : Z := 1301.     (* add_delta: self.free.last_mut().unwrap(), self.free.pop().unwrap() *)
Definition site_snaps_unwrap : Z := 1302.    (* add_delta: pop_back().unwrap(), front().unwrap(); add_snap: back().unwrap(), front().unwrap() *)
Definition site_builder_unwrap : Z := 1303.  (* server: builder.add_item(..).unwrap() *)
Definition site_write_unwrap : Z := 1304.    (* server: with_packer(&mut delta_buffer, |p| delta.write(obj_size, p)).unwrap() *)
Definition site_tick_i32 : Z := 1305.        (* server: self.server.game_tick.assert_i32() *)

Definition MAX_STORED_SNAPSHOT : Z := GEN_MAX_STORED_SNAPSHOT.   (* 100 *)
Definition SENDER_BUFFER : nat := Z.to_nat GEN_SENDER_BUFFER_BYTES.   (* 65536; server: delta_buffer.reserve(64 * 1024) on the cleared Vec *)

(* ---------- storage.rs ---------- *)
Inductive sterr := SOldDelta | SUnknownSnap | SInvalidCrc | SUnpack (e : serr).
Inductive stwarn := SWeirdNegativeDeltaTick | SWUnpack (w : swarn).

(* an element of `free`: a snapshot whose contents are known, or the remains of a failed read_with_delta *)
Inductive fsnap := FClean (X : snap) | FDirty.

Record storage := {
  st_snaps : list (Z * snap);     (* snaps: (tick, snap), newest first *)
  st_free : list fsnap;           (* free: head = last element of the Vec *)
  st_ack : option Z;              (* ack_tick *)
  st_dtick : option Z             (* delta_tick *)
}.

Definition storage_new : storage := {| st_snaps := []; st_free := []; st_ack := None; st_dtick := None |}.

(* self.snaps.drain(..).map(|s| self_free.push(s.snap)).count() for the drained run, oldest last *)
Definition push_free (drained : list (Z * snap)) (free : list fsnap) : list fsnap :=
  fold_left (fun f ts => FClean (snd ts) :: f) drained free.

Definition storage_reset (st : storage) : storage :=
  {| st_snaps := []; st_free := push_free (st_snaps st) (st_free st); st_ack := None; st_dtick := st_dtick st |}.

(* self.snaps.front().map(|s| s.tick).unwrap_or(-1) *)
Definition front_tick (st : storage) : Z :=
  match st_snaps st with (t, _) :: _ => t | [] => -1 end.

(* position(|s| s.tick < dt) and drain(i..): what stays, what is drained *)
Fixpoint split_old (dt : Z) (l : list (Z * snap)) : list (Z * snap) * list (Z * snap) :=
  match l with
  | [] => ([], [])
  | (t, s) :: r =>
    if t <? dt then ([], l)
    else let (k, d) := split_old dt r in ((t, s) :: k, d)
  end.

Fixpoint last_opt {A} (l : list A) : option A :=
  match l with
  | [] => None
  | a :: r => match r with [] => Some a | _ => last_opt r end
  end.

Fixpoint remove_last {A} (l : list A) : list A :=
  match l with
  | [] => []
  | a :: r => match r with [] => [] | _ => a :: remove_last r end
  end.

(* v.len(), in Z (the lists are short: at most 101 entries on the receiving side) *)
Definition zlen {A} (l : list A) : Z := Z.of_nat (length l).

Definition st_outcome (A : Type) : Type := (res sterr A * list stwarn)%type.

(* Storage::add_delta: the new state, the snapshot handed back (= the new front), the warnings *)
Definition add_delta (st : storage) (crc : option Z) (dt tick : Z) (d : delta) : storage * st_outcome snap :=
  if tick <=? front_tick st then (st, (Err SOldDelta, [])) else
  let '(snaps1, free1, base) :=
    if 0 <=? dt then
      let (kept, old) := split_old dt (st_snaps st) in
      (kept, push_free old (st_free st),
       match last_opt kept with
       | Some (t, s) => if t =? dt then Some s else None
       | None => None
       end)
    else (st_snaps st, st_free st, Some snap_empty) in
  match base with
  | None =>
    ({| st_snaps := snaps1; st_free := free1; st_ack := None; st_dtick := st_dtick st |}, (Err SUnknownSnap, []))
  | Some b =>
    let ws0 := if (dt <? 0) && negb (dt =? -1) then [SWeirdNegativeDeltaTick] else [] in
    let free2 := match free1 with [] => [FClean snap_empty] | _ => free1 end in
    match free2 with
    | [] => (st, (Panic site_free_unwrap, ws0))
    | _ :: free_rest =>
      match snap_read_with_delta b d with
      | (Ok X, ws) =>
        let wsa := ws0 ++ map SWUnpack ws in
        if match crc with Some c => negb (c =? Snap.crc (sn_raw X)) | None => false end then
          ({| st_snaps := snaps1; st_free := FClean X :: free_rest; st_ack := None; st_dtick := st_dtick st |},
           (Err SInvalidCrc, wsa))
        else
          let snaps2 := (tick, X) :: snaps1 in
          if MAX_STORED_SNAPSHOT <? zlen snaps2 then
            match last_opt snaps2 with
            | Some (_, sl) =>
              ({| st_snaps := remove_last snaps2; st_free := FClean sl :: free_rest;
                  st_ack := Some tick; st_dtick := st_dtick st |}, (Ok X, wsa))
            | None => (st, (Panic site_snaps_unwrap, wsa))
            end
          else
            ({| st_snaps := snaps2; st_free := free_rest; st_ack := Some tick; st_dtick := st_dtick st |}, (Ok X, wsa))
      | (Err e, ws) =>
        ({| st_snaps := snaps1; st_free := FDirty :: free_rest; st_ack := st_ack st; st_dtick := st_dtick st |},
         (Err (SUnpack e), ws0 ++ map SWUnpack ws))
      | (Panic s, ws) => (st, (Panic s, ws0 ++ map SWUnpack ws))
      | (OutOfFuel, ws) => (st, (OutOfFuel, ws0 ++ map SWUnpack ws))
      end
    end
  end.

(* Storage::new_builder: self.free.pop().unwrap_or_default().recycle() *)
Definition new_builder (st : storage) : storage * res unit builder :=
  match st_free st with
  | [] => (st, snap_recycle snap_empty)
  | FClean X :: r =>
    ({| st_snaps := st_snaps st; st_free := r; st_ack := st_ack st; st_dtick := st_dtick st |}, snap_recycle X)
  | FDirty :: r =>
    ({| st_snaps := st_snaps st; st_free := r; st_ack := st_ack st; st_dtick := st_dtick st |}, OutOfFuel)
  end.

(* Storage::set_delta_tick: Err tt = UnknownSnap; the bool = a WeirdNegativeDeltaTick warning *)
Definition set_delta_tick (st : storage) (tick : Z) : storage * (res unit unit * bool) :=
  if tick <? 0 then
    ({| st_snaps := st_snaps st; st_free := st_free st; st_ack := st_ack st; st_dtick := None |},
     (Ok tt, negb (tick =? -1)))
  else
    let (kept, old) := split_old tick (st_snaps st) in
    let free1 := push_free old (st_free st) in
    match last_opt kept with
    | Some (t, _) =>
      if t =? tick then
        ({| st_snaps := kept; st_free := free1; st_ack := st_ack st; st_dtick := Some tick |}, (Ok tt, false))
      else ({| st_snaps := kept; st_free := free1; st_ack := st_ack st; st_dtick := None |}, (Err tt, false))
    | None => ({| st_snaps := kept; st_free := free1; st_ack := st_ack st; st_dtick := None |}, (Err tt, false))
    end.

(* Storage::add_snap: the new state and the delta (Delta::create panics are the only failures) *)
Definition add_snap (st : storage) (tick : Z) (X : snap) : res unit (storage * delta) :=
  let snaps1 := (tick, X) :: st_snaps st in
  let* base := match st_dtick st with
               | Some _ => match last_opt snaps1 with
                           | Some (_, b) => Ok b
                           | None => Panic site_snaps_unwrap
                           end
               | None => Ok snap_empty
               end in
  let* d := create_raw (sn_raw base) (sn_raw X) in
  Ok ({| st_snaps := snaps1; st_free := st_free st; st_ack := st_ack st; st_dtick := st_dtick st |}, d).

(* ---------- manager.rs ---------- *)
Inductive merr := MReceiver (e : Receiver.rerr) | MSnap (e : serr) | MStorage (e : sterr).
Inductive mwarn := MWReceiver (w : Receiver.rwarn) | MWSnap (w : swarn) | MWStorage (w : stwarn).

Record manager := { m_recv : Receiver.receiver; m_store : storage }.
Definition manager_new : manager := {| m_recv := Receiver.new_receiver; m_store := storage_new |}.
Definition manager_reset (m : manager) : manager :=
  {| m_recv := Receiver.reset (m_recv m); m_store := storage_reset (m_store m) |}.
Definition manager_ack (m : manager) : option Z := st_ack (m_store m).

Definition m_outcome (A : Type) : Type := (res merr A * list mwarn)%type.

Definition lift_st {A} (r : res sterr A) : res merr A :=
  match r with Ok a => Ok a | Err e => Err (MStorage e) | Panic s => Panic s | OutOfFuel => OutOfFuel end.

(* ManagerInner::add_delta: parse the delta (temp_delta is cleared by every read), hand it to the storage *)
Definition mgr_add_delta (sz : osize) (st : storage) (rd : Receiver.received) : storage * m_outcome snap :=
  match Receiver.rd_data_and_crc rd with
  | Some (data, crc) =>
    match delta_read_bytes sz data with
    | (Ok d, ws) =>
      let '(st', (r, ws')) := add_delta st (Some crc) (Receiver.rd_delta_tick rd) (Receiver.rd_tick rd) d in
      (st', (lift_st r, map MWSnap ws ++ map MWStorage ws'))
    | (Err e, ws) => (st, (Err (MSnap e), map MWSnap ws))
    | (Panic s, ws) => (st, (Panic s, map MWSnap ws))
    | (OutOfFuel, ws) => (st, (OutOfFuel, map MWSnap ws))
    end
  | None =>
    let '(st', (r, ws')) := add_delta st None (Receiver.rd_delta_tick rd) (Receiver.rd_tick rd) delta_empty in
    (st', (lift_st r, map MWStorage ws'))
  end.

(* Manager::snap / snap_single / snap_empty, by message form *)
Definition manager_feed (sz : osize) (m : manager) (msg : Receiver.snapmsg) : manager * m_outcome (option snap) :=
  let '(r', (res, rws)) := Receiver.recv_step (m_recv m) msg in
  match res with
  | Ok None => ({| m_recv := r'; m_store := m_store m |}, (Ok None, map MWReceiver rws))
  | Ok (Some rd) =>
    let '(st', (r2, ws2)) := mgr_add_delta sz (m_store m) rd in
    ({| m_recv := r'; m_store := st' |},
     (match r2 with Ok X => Ok (Some X) | Err e => Err e | Panic s => Panic s | OutOfFuel => OutOfFuel end,
      map MWReceiver rws ++ ws2))
  | Err e => ({| m_recv := r'; m_store := m_store m |}, (Err (MReceiver e), map MWReceiver rws))
  | Panic s => ({| m_recv := r'; m_store := m_store m |}, (Panic s, map MWReceiver rws))
  | OutOfFuel => ({| m_recv := r'; m_store := m_store m |}, (OutOfFuel, map MWReceiver rws))
  end.

(* ---------- the sender loop of server/src/main.rs (send_snapshots, one peer) ---------- *)
Definition world := list (tyid * Z * list Z).      (* the items put into the builder, in order *)

(* builder.add_item(..).unwrap() for every item: Err = the first refusal *)
Fixpoint build_world (b : builder) (w : world) : res berr builder :=
  match w with
  | [] => Ok b
  | (t, id, data) :: r =>
    let (b', x) := builder_add b t id data in
    match x with
    | Ok _ => build_world b' r
    | Err e => Err e
    | Panic s => Panic s
    | OutOfFuel => OutOfFuel
    end
  end.

Record sent := {
  sn_tick : Z; sn_base : Z; sn_snap : snap; sn_crc : Z; sn_delta : delta; sn_bytes : bytes;
  sn_msgs : list Receiver.snapmsg
}.

Definition sender_send (sz : osize) (st : storage) (game_tick : Z) (w : world) : res unit (storage * sent) :=
  let (st1, rb) := new_builder st in
  let* b0 := rb in
  let base_tick := match st_dtick st1 with Some t => t | None => -1 end in
  let* b := match build_world b0 w with
            | Ok b => Ok b
            | Err _ => Panic site_builder_unwrap
            | Panic s => Panic s
            | OutOfFuel => OutOfFuel
            end in
  let X := builder_finish b in
  let c := Snap.crc (sn_raw X) in
  if negb ((0 <=? game_tick) && (game_tick <=? i32_max)) then Panic site_tick_i32 else
  let* (st2, d) := add_snap st1 game_tick X in
  let* bs := match delta_write_bytes sz d SENDER_BUFFER with
             | Ok bs => Ok bs
             | Err _ => Panic site_write_unwrap
             | Panic s => Panic s
             | OutOfFuel => OutOfFuel
             end in
  let* ms := Receiver.delta_chunks game_tick base_tick bs c in
  Ok (st2, {| sn_tick := game_tick; sn_base := base_tick; sn_snap := X; sn_crc := c; sn_delta := d;
              sn_bytes := bs; sn_msgs := ms |}).

(* ---------- the link ---------- *)
(* what the sender did for a tick (ghost: never read by the modelled code) *)
Record hrec := { h_snap : snap; h_base : Z; h_bytes : bytes }.

Record sender := {
  sd_store : storage;
  sd_tick : Z;                      (* game_tick *)
  sd_world : world;
  sd_hist : list (Z * hrec)         (* ghost: tick -> what was built and sent, newest first *)
}.

Record link := {
  l_sender : sender;
  l_mgr : manager;
  l_chan : list Receiver.snapmsg;   (* snapshot messages in flight *)
  l_acks : list Z;                  (* acknowledgements (Input.ack_snapshot) in flight *)
  l_accepted : list (Z * snap)      (* ghost: every (tick, snapshot) the Manager has handed out, newest first *)
}.

Inductive label :=
| World (w : world)        (* the game advances one tick and the world becomes w *)
| SendTick                 (* send_snapshots for the current tick *)
| Deliver (k : nat)        (* message k of the channel reaches the Manager (and stays in the channel: duplication) *)
| Drop (k : nat)           (* message k of the channel is lost *)
| SendAck                  (* the client puts ack_tick().unwrap_or(-1) on the ack channel *)
| DeliverAck (k : nat)     (* ack k reaches the sender: set_delta_tick (and stays: duplication) *)
| DropAck (k : nat)
| ForgeAck (v : Z)         (* an arbitrary value appears on the ack channel (a hostile or confused client) *)
| ResetMgr                 (* the client calls Manager::reset (new map, reconnect) *)
| Inject (m : Receiver.snapmsg).   (* a message nobody sent reaches the Manager (outside follows_api: the channel only
                                      loses, duplicates and reorders; used to tie the error paths to the code) *)

Inductive lobs :=
| ONone
| OSent (s : sent)
| ODeliver (tick : Z) (o : m_outcome (option snap)) (ack : option Z)
| OAckSent (v : Z)
| OAckDelivered (v : Z) (r : res unit unit) (weird : bool) (dtick : option Z).

Definition sender_init (t0 : Z) : sender :=
  {| sd_store := storage_new; sd_tick := t0; sd_world := []; sd_hist := [] |}.
Definition link_init (t0 : Z) : link :=
  {| l_sender := sender_init t0; l_mgr := manager_new; l_chan := []; l_acks := []; l_accepted := [] |}.

Fixpoint remove_nth {A} (k : nat) (l : list A) : list A :=
  match l with
  | [] => []
  | a :: r => match k with O => r | S k' => a :: remove_nth k' r end
  end.

Definition hist_last (h : list (Z * hrec)) : Z := match h with (t, _) :: _ => t | [] => -1 end.

(* a message reaches the Manager *)
Definition deliver (sz : osize) (s : link) (m : Receiver.snapmsg) : res unit (link * lobs) :=
  let '(mg', (r, ws)) := manager_feed sz (l_mgr s) m in
  match r with
  | Panic p => Panic p
  | OutOfFuel => OutOfFuel
  | _ =>
    Ok ({| l_sender := l_sender s; l_mgr := mg'; l_chan := l_chan s; l_acks := l_acks s;
           l_accepted := match r with
                         | Ok (Some X) => (Receiver.msg_tick m, X) :: l_accepted s
                         | _ => l_accepted s
                         end |},
        ODeliver (Receiver.msg_tick m) (r, ws) (manager_ack mg'))
  end.

Definition lstep (sz : osize) (s : link) (l : label) : res unit (link * lobs) :=
  let sd := l_sender s in
  match l with
  | World w =>
    Ok ({| l_sender := {| sd_store := sd_store sd; sd_tick := sd_tick sd + 1; sd_world := w; sd_hist := sd_hist sd |};
           l_mgr := l_mgr s; l_chan := l_chan s; l_acks := l_acks s; l_accepted := l_accepted s |}, ONone)
  | SendTick =>
    let* (st', x) := sender_send sz (sd_store sd) (sd_tick sd) (sd_world sd) in
    Ok ({| l_sender := {| sd_store := st'; sd_tick := sd_tick sd; sd_world := sd_world sd;
                          sd_hist := (sn_tick x, {| h_snap := sn_snap x; h_base := sn_base x; h_bytes := sn_bytes x |})
                                     :: sd_hist sd |};
           l_mgr := l_mgr s; l_chan := l_chan s ++ sn_msgs x; l_acks := l_acks s; l_accepted := l_accepted s |},
        OSent x)
  | Deliver k =>
    match nth_error (l_chan s) k with
    | None => Ok (s, ONone)
    | Some m => deliver sz s m
    end
  | Drop k =>
    Ok ({| l_sender := sd; l_mgr := l_mgr s; l_chan := remove_nth k (l_chan s); l_acks := l_acks s;
           l_accepted := l_accepted s |}, ONone)
  | SendAck =>
    let v := match manager_ack (l_mgr s) with Some t => t | None => -1 end in
    Ok ({| l_sender := sd; l_mgr := l_mgr s; l_chan := l_chan s; l_acks := l_acks s ++ [v];
           l_accepted := l_accepted s |}, OAckSent v)
  | DeliverAck k =>
    match nth_error (l_acks s) k with
    | None => Ok (s, ONone)
    | Some v =>
      let '(st', (r, weird)) := set_delta_tick (sd_store sd) v in
      Ok ({| l_sender := {| sd_store := st'; sd_tick := sd_tick sd; sd_world := sd_world sd; sd_hist := sd_hist sd |};
             l_mgr := l_mgr s; l_chan := l_chan s; l_acks := l_acks s; l_accepted := l_accepted s |},
          OAckDelivered v r weird (st_dtick st'))
    end
  | DropAck k =>
    Ok ({| l_sender := sd; l_mgr := l_mgr s; l_chan := l_chan s; l_acks := remove_nth k (l_acks s);
           l_accepted := l_accepted s |}, ONone)
  | ForgeAck v =>
    Ok ({| l_sender := sd; l_mgr := l_mgr s; l_chan := l_chan s; l_acks := l_acks s ++ [v];
           l_accepted := l_accepted s |}, ONone)
  | ResetMgr =>
    Ok ({| l_sender := sd; l_mgr := manager_reset (l_mgr s); l_chan := l_chan s; l_acks := l_acks s;
           l_accepted := l_accepted s |}, ONone)
  | Inject m => deliver sz s m
  end.

Fixpoint lrun (sz : osize) (s : link) (tr : list label) : res unit link :=
  match tr with
  | [] => Ok s
  | l :: tr' => let* (s', _) := lstep sz s l in lrun sz s' tr'
  end.

(* ---------- "the sender follows the storage API" ---------- *)
Definition uuid_in_range (u : Z) : bool := (0 <=? u) && (u <? 2 ^ 128).

(* what Builder::add_item documents / asserts: ordinal types in 1..0x3fff, UUIDs of 128 bits; ids are u16, data i32 *)
Definition item_okb (it : tyid * Z * list Z) : bool :=
  match fst (fst it) with
  | Ordinal o => (0 <? o) && (o <? OFFSET_EXTENDED_TYPE_ID)
  | Uuid u => uuid_in_range u
  end && is_u16 (snd (fst it)) && forallb is_i32 (snd it).

(* the snapshot add_snap will diff against *)
Definition sender_base (st : storage) : option snap :=
  match st_dtick st with
  | Some _ => match last_opt (st_snaps st) with Some (_, b) => Some b | None => None end
  | None => Some snap_empty
  end.

(* the obligations of the caller at a SendTick:
     - the tick is a fresh, larger i32 (game_tick.assert_i32(); one snapshot per tick),
     - every item is one Builder::add_item accepts without its assert, and none is refused
       (main.rs unwraps the result: distinct keys, at most 1024 items, 64 KiB, type numbers left),
     - items of a type with a pre-agreed size have that size (Delta::write asserts it),
     - K09: no item keeps its (raw) key and changes its length against the snapshot the delta is
       taken from (Delta::create panics otherwise - the known-finding class K09),
     - the packed delta fits the sender's 64 KiB buffer (main.rs unwraps the CapacityError).
   Where the model itself would panic the predicate says `true`: panics are not assumed away. *)
Definition send_api_ok (sz : osize) (sd : sender) : bool :=
  (hist_last (sd_hist sd) <? sd_tick sd) && (0 <=? sd_tick sd) && (sd_tick sd <=? i32_max)
  && forallb item_okb (sd_world sd)
  && let (st1, rb) := new_builder (sd_store sd) in
     match rb with
     | Ok b0 =>
       match build_world b0 (sd_world sd) with
       | Ok b =>
         let X := builder_finish b in
         sizes_respected sz (sn_raw X)
         && match sender_base st1 with
            | Some base =>
              negb (k09 (sn_raw base) (sn_raw X))
              && match create_raw (sn_raw base) (sn_raw X) with
                 | Ok d => match delta_write_bytes sz d SENDER_BUFFER with Err _ => false | _ => true end
                 | _ => true
                 end
            | None => true
            end
       | Err _ => false
       | _ => true
       end
     | _ => true
     end.

Definition api_ok (sz : osize) (s : link) (l : label) : bool :=
  match l with
  | SendTick => send_api_ok sz (l_sender s)
  | ForgeAck v => is_i32 v
  | Inject _ => false
  | _ => true
  end.

Fixpoint follows_api (sz : osize) (s : link) (tr : list label) : bool :=
  match tr with
  | [] => true
  | l :: tr' =>
    api_ok sz s l &&
    match lstep sz s l with
    | Ok (s', _) => follows_api sz s' tr'
    | _ => true
    end
  end.

(* the ghost history as a function tick -> snapshot *)
Definition hist_snap (s : link) (t : Z) : option snap :=
  match aget t (sd_hist (l_sender s)) with Some e => Some (h_snap e) | None => None end.

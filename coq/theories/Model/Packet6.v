(* Model of the 0.6 / DDNet packet codec, net/src/protocol.rs:
   Packet::write (ConnectedPacket::write_impl, ControlPacket::write,
   write_connless_packet), Packet::read / read_panic_on_decompression (read_impl),
   has_token_heuristic, decompress(_if_needed), is_initial, ChunksIter::next_warn,
   read_chunk_header, write_chunk.
   The bit-field leaf functions and the constants are NOT written here: they are
   regenerated from the Rust source (Gen/Bits6.v, Gen/Consts6.v).
   The Huffman coder is a parameter: `comp x cap` = HUFFMAN.compress(x, buffer of
   capacity cap) (None = CapacityError), `decomp y cap` = HUFFMAN.decompress likewise.
   Definitions only; proofs live in Proofs/Packet6*.v. *)
From LibTw2 Require Export Base.Res Model.PacketTypes Model.PacketBase Gen.Consts6 Gen.Bits6.
Open Scope Z_scope.

(* panic sites of this file (the generated pack functions have 610..) *)
Definition site6_read_small_buffer : Z := 650.      (* read_impl: assert!(buffer.remaining() >= MAX_PACKETSIZE) *)
Definition site6_read_no_buffer : Z := 651.         (* read_panic_on_decompression on a compressed packet: buffer.expect(..) *)
Definition site6_decompress_small_buffer : Z := 652. (* decompress(_if_needed)_impl: assert!(buffer.remaining() >= MAX_PACKETSIZE) *)
Definition site6_decompress_not_needed : Z := 653.  (* decompress_impl: assert!(needs_decompression(packet)) and the flag asserts *)
Definition site6_decompress_unwrap : Z := 654.      (* decompress_impl: buffer.write(fake_header).unwrap() / ref_and_rest_from(..).unwrap() *)
Definition site6_close_reason_nul : Z := 655.       (* ControlPacket::write: assert!(m.iter().all(|&b| b != 0)) *)
Definition site6_control_too_long : Z := 656.       (* ControlPacket::write: assert!(result.len() <= MAX_PACKETSIZE) *)
Definition site6_write_chunk_size : Z := 657.       (* write_chunk_impl: assert!(bytes.len() >> CHUNK_SIZE_BITS == 0) *)
Definition site6_chunks_remaining_overflow : Z := 658. (* ChunksIter::next_warn: num_remaining_chunks -= 1 on i32::MIN (debug) *)

(* capacity of the two ArrayVec<[u8; 2048]> in ConnectedPacket::write_impl *)
Definition ARRAYVEC_CAP : nat := 2048.

Definition HuffC := bytes -> nat -> option bytes.

(* ================= write side ================= *)

Definition wres6 := (wbuf * res wrerr6 unit)%type.

(* buffer.write(bs)?; then k *)
Definition wstep6 (t : wbuf) (bs : bytes) (k : wbuf -> wres6) : wres6 :=
  let (t', ok) := wb_write t bs in
  if ok then k t' else (t', Err WE6Capacity).

Definition wdone6 (t : wbuf) : wres6 := (t, Ok tt).

(* buffer.write(header.pack().as_bytes())?; the asserts of pack are panics *)
Definition write_header6 (t : wbuf) (h : PacketHeader6) (k : wbuf -> wres6) : wres6 :=
  match PacketHeader6_pack h with
  | Ok hp => wstep6 t (PacketHeaderPacked6_as_bytes hp) k
  | Err e => match e with end
  | Panic s => (t, Panic s)
  | OutOfFuel => (t, OutOfFuel)
  end.

(* write_connless_packet *)
Definition write_connless6 (payload : bytes) (t : wbuf) : wres6 :=
  if Z.of_nat (length payload) >? MAX_PAYLOAD then (t, Err WE6TooLongData) else
  wstep6 t (repeat 255 (Z.to_nat (HEADER_SIZE + PADDING_SIZE_CONNLESS))) (fun t =>
  wstep6 t payload wdone6).

Definition ctrl_magic6 (c : control6) : Z :=
  match c with
  | C6KeepAlive => CTRLMSG_KEEPALIVE
  | C6Connect => CTRLMSG_CONNECT
  | C6ConnectAccept => CTRLMSG_CONNECTACCEPT
  | C6Accept => CTRLMSG_ACCEPT
  | C6Close _ => CTRLMSG_CLOSE
  end.

Definition is_connect6 (c : control6) : bool :=
  match c with C6Connect | C6ConnectAccept => true | _ => false end.

(* ControlPacket::write *)
Definition write_control6 (c : control6) (tok : option token) (ack : Z) (t : wbuf) : wres6 :=
  write_header6 t {| ph6_flags := PACKETFLAG_CONTROL; ph6_ack := ack; ph6_num_chunks := 0 |} (fun t =>
  wstep6 t [ctrl_magic6 c] (fun t =>
  let finish := fun t : wbuf =>
    if Z.of_nat (length (wb_data t)) >? MAX_PACKETSIZE then (t, Panic site6_control_too_long)
    else wdone6 t in
  let token_part := fun t : wbuf =>
    match tok with Some tk => wstep6 t tk finish | None => finish t end in
  let close_part := fun t : wbuf =>
    match c with
    | C6Close m =>
      if has_nul m then (t, Panic site6_close_reason_nul) else
      wstep6 t m (fun t => wstep6 t [0] token_part)
    | _ => token_part t
    end in
  if is_connect6 c && (match tok with Some _ => true | None => false end)
  then wstep6 t CTRLMSG_TOKEN_MAGIC close_part
  else close_part t)).

(* the payload that is compressed / sent: the token is appended through
   io::Write for ArrayVec<[u8; 2048]>, which silently stops at the capacity *)
Definition chunks_payload6 (tok : option token) (payload : bytes) : bytes :=
  match tok with
  | Some tk => firstn ARRAYVEC_CAP (payload ++ tk)
  | None => payload
  end.

(* ConnectedPacket::write_impl *)
Definition write_connected6 (comp : HuffC) (ack : Z) (tok : option token) (ty : ptype6) (t : wbuf) : wres6 :=
  match ty with
  | P6Chunks request_resend num_chunks payload =>
    let payload' := chunks_payload6 tok payload in
    let comp_result := comp payload' ARRAYVEC_CAP in
    let compression :=
      match comp_result with Some s => (length s <? length payload')%nat | None => false end in
    let flags := Z.lor (bool_flag request_resend PACKETFLAG_REQUEST_RESEND)
                       (bool_flag compression PACKETFLAG_COMPRESSION) in
    write_header6 t {| ph6_flags := flags; ph6_ack := ack; ph6_num_chunks := num_chunks |} (fun t =>
    wstep6 t (if compression then match comp_result with Some s => s | None => [] end else payload') wdone6)
  | P6Control c => write_control6 c tok ack t
  end.

(* Packet::write into a fresh buffer of capacity cap: what the buffer holds afterwards, and the result *)
Definition write6_full (comp : HuffC) (p : packet6) (cap : nat) : bytes * res wrerr6 unit :=
  let (t, r) :=
    match p with
    | P6Connless payload => write_connless6 payload (wb_new cap)
    | P6Connected ack tok ty => write_connected6 comp ack tok ty (wb_new cap)
    end in
  (wb_data t, r).

Definition write6 (comp : HuffC) (p : packet6) (cap : nat) : res wrerr6 bytes :=
  match write6_full comp p cap with
  | (out, Ok _) => Ok out
  | (_, Err e) => Err e
  | (_, Panic s) => Panic s
  | (_, OutOfFuel) => OutOfFuel
  end.

(* write_chunk(bytes, vital, buffer); Err tt = buffer::CapacityError *)
Definition write_chunk6_full (data : bytes) (vital : option (Z * bool)) (cap : nat) : bytes * res unit unit :=
  let len := Z.of_nat (length data) in
  if negb (Z.shiftr len CHUNK_SIZE_BITS =? 0) then ([], Panic site6_write_chunk_size) else
  let '(sequence, resend) := match vital with Some v => v | None => (0, false) end in
  let resend_flag := bool_flag resend CHUNKFLAG_RESEND in
  let vital_flag := bool_flag (match vital with Some _ => true | None => false end) CHUNKFLAG_VITAL in
  let header_nonvital := {| ch6_flags := Z.lor vital_flag resend_flag; ch6_size := len |} in
  let header : res Empty_set bytes :=
    match vital with
    | Some _ =>
      match ChunkHeaderVital6_pack {| chv6_h := header_nonvital; chv6_sequence := sequence |} with
      | Ok hp => Ok (ChunkHeaderVitalPacked6_as_bytes hp)
      | Err e => Err e | Panic s => Panic s | OutOfFuel => OutOfFuel
      end
    | None =>
      match ChunkHeader6_pack header_nonvital with
      | Ok hp => Ok (ChunkHeaderPacked6_as_bytes hp)
      | Err e => Err e | Panic s => Panic s | OutOfFuel => OutOfFuel
      end
    end in
  match header with
  | Ok hb =>
    let (t1, ok1) := wb_write (wb_new cap) hb in
    if negb ok1 then (wb_data t1, Err tt) else
    let (t2, ok2) := wb_write t1 data in
    (wb_data t2, if ok2 then Ok tt else Err tt)
  | Err e => match e with end
  | Panic s => ([], Panic s)
  | OutOfFuel => ([], OutOfFuel)
  end.

Definition write_chunk6 (data : bytes) (vital : option (Z * bool)) (cap : nat) : res unit bytes :=
  match write_chunk6_full data vital cap with
  | (out, Ok _) => Ok out
  | (_, Err e) => Err e
  | (_, Panic s) => Panic s
  | (_, OutOfFuel) => OutOfFuel
  end.

(* ================= chunk iterator ================= *)

(* read_chunk_header: header, sequence, the slice after the header (as the number of
   header bytes consumed), and the warnings it sends *)
Definition read_chunk_header6 (data : bytes)
  : option (ChunkHeader6 * option Z * nat * bytes) * list warning6 :=
  match ChunkHeaderPacked6_of_bytes data with
  | None => (None, [])
  | Some (raw, rest2) =>
    let (header, _) := ChunkHeaderPacked6_unpack_warn raw in      (* &mut Ignore *)
    if land_ne0 (ch6_flags header) CHUNKFLAG_VITAL then
      match ChunkHeaderVitalPacked6_of_bytes data with
      | None => (None, [])
      | Some (rawv, rest3) =>
        let (hv, ws) := ChunkHeaderVitalPacked6_unpack_warn rawv in
        (Some (chv6_h hv, Some (chv6_sequence hv), 3%nat, rest3), ws)
      end
    else
      let (_, ws) := ChunkHeaderPacked6_unpack_warn raw in
      (Some (header, None, 2%nat, rest2), ws)
  end.

(* ChunksIter: data, pos() = initial_len - data.len(), num_remaining_chunks, checked flag *)
Record citer6 : Set := { ci6_data : bytes; ci6_pos : nat; ci6_remaining : Z; ci6_checked : bool }.

Definition chunks_new6 (data : bytes) (num_chunks : Z) : citer6 :=
  {| ci6_data := data; ci6_pos := O; ci6_remaining := num_chunks; ci6_checked := false |}.

(* excess_data: warn, drop everything *)
Definition excess6 (it : citer6) : citer6 :=
  {| ci6_data := []; ci6_pos := (ci6_pos it + length (ci6_data it))%nat;
     ci6_remaining := ci6_remaining it; ci6_checked := ci6_checked it |}.

(* next_warn: the chunk (with the view of its data relative to the iterated payload),
   the new iterator state, the warnings in order *)
Definition chunks_next6 (it : citer6) : res Empty_set (option (chunk * view) * citer6 * list warning6) :=
  match ci6_data it with
  | [] =>
    if negb (ci6_checked it) then
      Ok (None, {| ci6_data := []; ci6_pos := ci6_pos it; ci6_remaining := ci6_remaining it; ci6_checked := true |},
          if negb (ci6_remaining it =? 0) then [W6ChunksNumChunks] else [])
    else Ok (None, it, [])
  | _ :: _ =>
    match read_chunk_header6 (ci6_data it) with
    | (None, ws) => Ok (None, excess6 it, ws ++ [W6ChunksUnknownData])
    | (Some (header, sequence, hlen, rest), ws) =>
      let vital := match sequence with
                   | Some s => Some (s, land_ne0 (ch6_flags header) CHUNKFLAG_RESEND)
                   | None => None
                   end in
      let size := ch6_size header in
      if Z.of_nat (length rest) <? size then Ok (None, excess6 it, ws ++ [W6ChunksUnknownData]) else
      let n := Z.to_nat size in       (* 0 <= size <= rest.len() *)
      if ci6_remaining it - 1 <? i32_min then Panic site6_chunks_remaining_overflow else
      Ok (Some ({| ch_data := firstn n rest; ch_vital := vital |},
                {| v_src := Input; v_off := (ci6_pos it + hlen)%nat; v_len := n |}),
          {| ci6_data := skipn n rest; ci6_pos := (ci6_pos it + hlen + n)%nat;
             ci6_remaining := ci6_remaining it - 1; ci6_checked := ci6_checked it |},
          ws)
    end
  end.

(* `while let Some(c) = it.next_warn(warn)`: every chunk until the first None; each
   chunk consumes at least two bytes, so length/2 + 1 calls suffice (k is that bound) *)
Fixpoint chunks_all6_loop (k : nat) (it : citer6)
  : res Empty_set (list (chunk * view) * list warning6 * citer6) :=
  match k with
  | O => OutOfFuel
  | S k' =>
    match chunks_next6 it with
    | Ok (None, it', ws) => Ok ([], ws, it')
    | Ok (Some c, it', ws) =>
      match chunks_all6_loop k' it' with
      | Ok (cs, ws', it'') => Ok (c :: cs, ws ++ ws', it'')
      | r => r
      end
    | Err e => Err e
    | Panic s => Panic s
    | OutOfFuel => OutOfFuel
    end
  end.

Definition chunks_iter_all6 (payload : bytes) (num_chunks : Z)
  : res Empty_set (list (chunk * view) * list warning6 * citer6) :=
  chunks_all6_loop (S (Nat.div2 (length payload))) (chunks_new6 payload num_chunks).

(* ================= read side ================= *)

(* the `for _ in 0..num_chunks { if next_warn(Ignore).is_none() { return false } }` of
   has_token_heuristic; Some pos = all num_chunks chunks were there.
   k bounds the number of successful calls (length/2 + 1). *)
Fixpoint heur_chunks6 (k : nat) (n : Z) (it : citer6) : res Empty_set (option nat) :=
  if n <=? 0 then Ok (Some (ci6_pos it)) else
  match k with
  | O => OutOfFuel
  | S k' =>
    match chunks_next6 it with
    | Ok (None, _, _) => Ok None
    | Ok (Some _, it', _) => heur_chunks6 k' (n - 1) it'
    | Err e => Err e
    | Panic s => Panic s
    | OutOfFuel => OutOfFuel
    end
  end.

Definition has_token_heuristic6 (control : bool) (num_chunks : Z) (payload : bytes) : res Empty_set bool :=
  let finish := fun end_ : nat => ((end_ + Z.to_nat TOKEN_SIZE)%nat <=? length payload)%nat in
  if control then
    match payload with
    | [] => Ok false
    | ctrl :: rest =>
      if (ctrl =? CTRLMSG_CONNECT) || (ctrl =? CTRLMSG_CONNECTACCEPT) then
        if (length rest <? 4)%nat || negb (bytes_eqb (firstn 4 rest) CTRLMSG_TOKEN_MAGIC) then Ok false
        else Ok (finish 5%nat)
      else if ctrl =? CTRLMSG_CLOSE then
        let nul := find_nul rest in
        if (length rest =? 4)%nat && (negb (nul =? 3)%nat || negb (utf8_valid (firstn 3 rest)))
        then Ok true
        else Ok (finish (1 + nul + 1)%nat)
      else Ok (finish 1%nat)
    end
  else
    match heur_chunks6 (S (Nat.div2 (length payload))) num_chunks (chunks_new6 payload num_chunks) with
    | Ok (Some pos) => Ok (finish pos)
    | Ok None => Ok false
    | Err e => Err e
    | Panic s => Panic s
    | OutOfFuel => OutOfFuel
    end.

Definition header_of6 (bs : bytes) : option (PacketHeader6 * list warning6 * bytes) :=
  match PacketHeaderPacked6_of_bytes bs with
  | None => None
  | Some (hp, payload) => let (h, ws) := PacketHeaderPacked6_unpack_warn hp in Some (h, ws, payload)
  end.

(* Packet::needs_decompression *)
Definition needs_decompression6 (bs : bytes) : bool :=
  if Z.of_nat (length bs) >? MAX_PACKETSIZE then false else
  match header_of6 bs with
  | None => false
  | Some (h, _, _) =>
    negb (land_ne0 (ph6_flags h) PACKETFLAG_CONNLESS) && land_ne0 (ph6_flags h) PACKETFLAG_COMPRESSION
  end.

(* Packet::is_initial *)
Definition is_initial6 (bs : bytes) : bool :=
  if Z.of_nat (length bs) >? MAX_PACKETSIZE then false else
  match header_of6 bs with
  | None => false
  | Some (h, _, payload) =>
    if land_ne0 (ph6_flags h) PACKETFLAG_CONNLESS then true else
    (Z.land (ph6_flags h) (Z.lxor PACKETFLAG_REQUEST_RESEND 255) =? PACKETFLAG_CONTROL)
    && match payload with
       | c :: _ => (c =? CTRLMSG_CONNECT) || (c =? CTRLMSG_ACCEPT)
       | [] => false
       end
  end.

(* Packet::decompress_impl into a scratch buffer with `cap` bytes remaining: what the scratch
   buffer holds afterwards (fake header ++ decompressed payload); Err tt = DecompressionError *)
Definition decompress6 (decomp : HuffC) (bs : bytes) (cap : nat) : res unit bytes :=
  if Z.of_nat cap <? MAX_PACKETSIZE then Panic site6_decompress_small_buffer else
  if negb (needs_decompression6 bs) then Panic site6_decompress_not_needed else
  match header_of6 bs with
  | None => Panic site6_decompress_unwrap
  | Some (h, _, payload) =>
    if land_ne0 (ph6_flags h) PACKETFLAG_CONNLESS then Panic site6_decompress_not_needed else
    if negb (land_ne0 (ph6_flags h) PACKETFLAG_COMPRESSION) then Panic site6_decompress_not_needed else
    let fake := {| ph6_flags := Z.land (ph6_flags h) (Z.lxor PACKETFLAG_COMPRESSION 255);
                   ph6_ack := ph6_ack h; ph6_num_chunks := ph6_num_chunks h |} in
    match PacketHeader6_pack fake with
    | Ok fp =>
      let hb := PacketHeaderPacked6_as_bytes fp in
      if (cap <? length hb)%nat then Panic site6_decompress_unwrap else
      match decomp payload (cap - length hb)%nat with
      | None => Err tt
      | Some d => Ok (hb ++ d)
      end
    | Err e => match e with end
    | Panic s => Panic s
    | OutOfFuel => OutOfFuel
    end
  end.

(* Packet::decompress_if_needed: Ok None = Ok(false); Ok (Some scratch) = Ok(true) *)
Definition decompress_if_needed6 (decomp : HuffC) (bs : bytes) (cap : nat) : res unit (option bytes) :=
  if Z.of_nat cap <? MAX_PACKETSIZE then Panic site6_decompress_small_buffer else
  if negb (needs_decompression6 bs) then Ok None else
  match decompress6 decomp bs cap with
  | Ok s => Ok (Some s)
  | Err e => Err e
  | Panic s => Panic s
  | OutOfFuel => OutOfFuel
  end.

(* the result of a read: the warnings sent to the sink so far (also when the read then
   fails), and the packet with the views of the slices it borrows *)
Definition rres6 := (list warning6 * res rderr6 (packet6 * list view))%type.

(* the control-message part of read_impl; `ws` = warnings so far, p = payload after the token
   was stripped *)
Definition read_control6 (ws : list warning6) (h : PacketHeader6) (tok : option token) (ack : Z) (p : slice) : rres6 :=
  let flags := ph6_flags h in
  let ws := ws ++ (if negb (ph6_num_chunks h =? 0) then [W6ControlNumChunks] else []) in
  let ws := ws ++ (if land_ne0 flags PACKETFLAG_COMPRESSION || land_ne0 flags PACKETFLAG_REQUEST_RESEND
                   then [W6ControlFlags] else []) in
  match s_data p with
  | [] => (ws, Err E6ControlMissing)
  | control :: rest =>
    let pr := slice_skip 1 p in
    let ws :=
      ws ++
      (if (control =? CTRLMSG_CONNECT) || (control =? CTRLMSG_CONNECTACCEPT) then
         match tok with
         | Some _ =>
           if negb (starts_with rest CTRLMSG_TOKEN_MAGIC) then
             W6ControlConnectMissingTokenMagic :: (if negb (length rest =? 0)%nat then [W6ControlExcessData] else [])
           else if (length CTRLMSG_TOKEN_MAGIC <? length rest)%nat then [W6ControlExcessData] else []
         | None => if negb (length rest =? 0)%nat then [W6ControlExcessData] else []
         end
       else if control =? CTRLMSG_CLOSE then []
       else if negb (length rest =? 0)%nat then [W6ControlExcessData] else []) in
    let done := fun (ws : list warning6) (c : control6) (vs : list view) =>
      (ws, Ok (P6Connected ack tok (P6Control c), vs)) in
    if control =? CTRLMSG_KEEPALIVE then done ws C6KeepAlive []
    else if control =? CTRLMSG_CONNECT then done ws C6Connect []
    else if control =? CTRLMSG_CONNECTACCEPT then done ws C6ConnectAccept []
    else if control =? CTRLMSG_ACCEPT then done ws C6Accept []
    else if control =? CTRLMSG_CLOSE then
      let nul := Nat.min (find_nul rest) (Z.to_nat CTRLMSG_CLOSE_REASON_LENGTH) in
      let ws := ws ++
        (if negb (length rest =? 0)%nat && negb (nul + 1 =? length rest)%nat then
           if (nul + 1 <? length rest)%nat then [W6ControlExcessData] else [W6ControlNulTermination]
         else []) in
      let reason := slice_take nul pr in
      done ws (C6Close (s_data reason)) [view_of reason]
    else (ws, Err E6UnknownControl)
  end.

(* read_impl, connectionless branch: payload = what follows the three header bytes *)
Definition read_connless6 (ws : list warning6) (bs payload : bytes) : rres6 :=
  if Z.of_nat (length payload) <? PADDING_SIZE_CONNLESS then (ws, Err E6ShortConnless) else
  let npad := Z.to_nat PADDING_SIZE_CONNLESS in
  let padding := firstn npad payload in
  let pl := {| s_src := Input; s_off := (Z.to_nat HEADER_SIZE + npad)%nat; s_data := skipn npad payload |} in
  let ws := ws ++ (if negb (all_ff padding) || negb (all_ff (firstn 3 bs)) then [W6ConnlessPadding] else []) in
  (ws, Ok (P6Connless (s_data pl), [view_of pl])).

(* read_impl: where the payload of a connected packet lives (the input, or the scratch buffer
   after decompression) *)
Definition payload_slice6 (decomp : HuffC) (bs : bytes) (cap : option nat) (flags : Z) (payload : bytes)
  : res rderr6 slice :=
  if land_ne0 flags PACKETFLAG_COMPRESSION then
    match cap with
    | None => Panic site6_read_no_buffer
    | Some c =>
      match decompress6 decomp bs c with
      | Ok scratch =>
        match PacketHeaderPacked6_of_bytes scratch with
        | Some (_, pl) => Ok {| s_src := Scratch; s_off := Z.to_nat HEADER_SIZE; s_data := pl |}
        | None => Panic site6_decompress_unwrap
        end
      | Err _ => Err E6Compression
      | Panic s => Panic s
      | OutOfFuel => OutOfFuel
      end
    end
  else Ok {| s_src := Input; s_off := Z.to_nat HEADER_SIZE; s_data := payload |}.

(* read_impl from the size check of the (decompressed) payload on *)
Definition read_payload6 (ws : list warning6) (h : PacketHeader6) (hint : option bool) (p : slice) : rres6 :=
  let flags := ph6_flags h in
  if Z.of_nat (length (s_data p)) >? MAX_PACKETSIZE - HEADER_SIZE then (ws, Err E6Compression) else
  let ack := ph6_ack h in
  let has_token_r : res Empty_set bool :=
    match hint with
    | Some b => Ok b
    | None => has_token_heuristic6 (land_ne0 flags PACKETFLAG_CONTROL) (ph6_num_chunks h) (s_data p)
    end in
  match has_token_r with
  | Err e => match e with end
  | Panic s => (ws, Panic s)
  | OutOfFuel => (ws, OutOfFuel)
  | Ok has_token =>
    let len := length (s_data p) in
    if has_token && (Z.of_nat len <? TOKEN_SIZE) then (ws, Err E6TokenMissing) else
    let ntok := Z.to_nat TOKEN_SIZE in
    let p' := if has_token then slice_take (len - ntok) p else p in
    let tok := if has_token then Some (skipn (len - ntok) (s_data p)) else None in
    if land_ne0 flags PACKETFLAG_CONTROL then read_control6 ws h tok ack p'
    else
      let request_resend := land_ne0 flags PACKETFLAG_REQUEST_RESEND in
      let ws := ws ++ (if (ph6_num_chunks h =? 0) && negb request_resend then [W6ChunksNoChunks] else []) in
      (ws, Ok (P6Connected ack tok (P6Chunks request_resend (ph6_num_chunks h) (s_data p')), [view_of p']))
  end.

(* Packet::read_impl; cap = Some c: a scratch buffer with c bytes remaining was given
   (Packet::read), None: read_panic_on_decompression *)
Definition read_impl6 (decomp : HuffC) (bs : bytes) (hint : option bool) (cap : option nat) : rres6 :=
  if match cap with Some c => Z.of_nat c <? MAX_PACKETSIZE | None => false end
  then ([], Panic site6_read_small_buffer) else
  if Z.of_nat (length bs) >? MAX_PACKETSIZE then ([], Err E6TooLong) else
  match header_of6 bs with
  | None => ([], Err E6TooShort)
  | Some (h, ws, payload) =>
    if land_ne0 (ph6_flags h) PACKETFLAG_CONNLESS then read_connless6 ws bs payload else
    match payload_slice6 decomp bs cap (ph6_flags h) payload with
    | Err e => (ws, Err e)
    | Panic s => (ws, Panic s)
    | OutOfFuel => (ws, OutOfFuel)
    | Ok p => read_payload6 ws h hint p
    end
  end.

(* Packet::read with a scratch buffer of `cap` bytes *)
Definition read6 (decomp : HuffC) (bs : bytes) (hint : option bool) (cap : nat) : rres6 :=
  read_impl6 decomp bs hint (Some cap).

(* Packet::read_panic_on_decompression (never touches a Huffman decoder) *)
Definition read_nodecomp6 (bs : bytes) (hint : option bool) : rres6 :=
  read_impl6 (fun _ _ => None) bs hint None.

(* ================= predicates used by the property theorems ================= *)

(* the token hint that tells the reader the truth about a value *)
Definition true_hint6 (p : packet6) : option bool :=
  match p with
  | P6Connless _ => Some false
  | P6Connected _ tok _ => Some (match tok with Some _ => true | None => false end)
  end.

(* K05: a chunk packet that announces no chunks and does not request a resend: the reader
   deliberately warns ChunksNoChunks about such a value *)
Definition K05_6 (p : packet6) : bool :=
  match p with
  | P6Connected _ _ (P6Chunks false n _) => n =? 0
  | _ => false
  end.

(* K06: a connectionless payload longer than MAX_PAYLOAD: the reader accepts up to
   MAX_PACKETSIZE - 6 bytes, the writer refuses above MAX_PAYLOAD *)
Definition K06_6 (p : packet6) : bool :=
  match p with
  | P6Connless payload => Z.of_nat (length payload) >? MAX_PAYLOAD
  | _ => false
  end.

(* the values the API can express and the size limits allow:
   ack is a u10, num_chunks a u8, tokens are four bytes, a close reason is NUL-free and at
   most 127 bytes, a chunk payload (with its token) fits a packet *)
Definition expressible6 (p : packet6) : bool :=
  match p with
  | P6Connless payload => Z.of_nat (length payload) <=? MAX_PACKETSIZE - HEADER_SIZE - PADDING_SIZE_CONNLESS
  | P6Connected ack tok ty =>
    (0 <=? ack) && (ack <? 1024)
    && match tok with Some t => token_ok t | None => true end
    && match ty with
       | P6Chunks _ n payload =>
         (0 <=? n) && (n <? 256)
         && (Z.of_nat (length payload) + (match tok with Some _ => TOKEN_SIZE | None => 0 end)
             <=? MAX_PACKETSIZE - HEADER_SIZE)
       | P6Control (C6Close reason) =>
         negb (has_nul reason) && (Z.of_nat (length reason) <=? CTRLMSG_CLOSE_REASON_LENGTH)
       | P6Control _ => true
       end
  end.

(* every byte of the value is a byte *)
Definition packet_bytes_ok6 (p : packet6) : bool :=
  match p with
  | P6Connless payload => bytes_ok payload
  | P6Connected _ tok ty =>
    match tok with Some t => bytes_ok t | None => true end
    && match ty with
       | P6Chunks _ _ payload => bytes_ok payload
       | P6Control (C6Close reason) => bytes_ok reason
       | P6Control _ => true
       end
  end.

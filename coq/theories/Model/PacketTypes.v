(* The packet values of net/src/protocol.rs (0.6 / DDNet) and protocol7.rs (0.7),
   shared by the packet codec models (Packet6.v, Packet7.v) and the connection
   models (Conn*.v). Tokens are the four token bytes. Definitions only. *)
From LibTw2 Require Export Base.Res.
Open Scope Z_scope.

Definition token := bytes.                        (* exactly 4 bytes *)
Definition TOKEN_NONE : token := [255; 255; 255; 255].
Definition TOKEN_RESERVED : token := [0; 0; 0; 0].   (* 0.6 only *)

(* a chunk as ChunksIter yields it / as write_chunk takes it *)
Record chunk := { ch_data : bytes; ch_vital : option (Z * bool) }.   (* Some (sequence, resend) *)

(* ---------- 0.6 ---------- *)
Inductive control6 :=
| C6KeepAlive | C6Connect | C6ConnectAccept | C6Accept | C6Close (reason : bytes).

Inductive ptype6 :=
| P6Chunks (request_resend : bool) (num_chunks : Z) (payload : bytes)
| P6Control (c : control6).

Inductive packet6 :=
| P6Connless (payload : bytes)
| P6Connected (ack : Z) (tok : option token) (t : ptype6).

(* ---------- 0.7 ---------- *)
Inductive control7 :=
| C7KeepAlive | C7Connect (response_token : token) | C7Accept
| C7Close (reason : bytes) | C7Token (response_token : token).

Inductive ptype7 :=
| P7Chunks (request_resend : bool) (num_chunks : Z) (payload : bytes)
| P7Control (c : control7).

Inductive packet7 :=
| P7Connless (payload : bytes) (tok : token) (response_token : token)
| P7Connected (ack : Z) (tok : token) (t : ptype7).

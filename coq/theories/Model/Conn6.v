(* net/src/connection.rs (Teeworlds 0.6 with and without the DDNet token
   extension): the state machine around the shared online core. Definitions only. *)
From LibTw2 Require Export Model.ConnCore.
Open Scope Z_scope.

Inductive state6 :=
| Unconnected
| Connecting
| Pending (tok : option token)
| Online (o : online)
| Disconnected.

Record conn6 := { c_state : state6; c_send : timeout }.
Definition conn6_new : conn6 := {| c_state := Unconnected; c_send := None |}.

(* Connection::new_accept_token *)
Definition conn6_new_accept_token (now : Z) (tok : token) : conn6 :=
  {| c_state := Online (online_new (Some tok) (Some tok)); c_send := Some (now + ms 500) |}.

(* State::token *)
Definition state_token (s : state6) : option (option token) :=
  match s with
  | Pending t => Some t
  | Online o => Some (o_own o)
  | _ => None
  end.

Inductive cwarn := WTokenMismatch | WUnexpected.
Inductive api_res := ROk | RTooLongData.

Record outcome := {
  out_conn : conn6;
  out_env : env;
  out_sent : list dgram;
  out_events : list ev;
  out_warns : list cwarn;
  out_res : api_res;
}.
Definition mk (c : conn6) (e : env) (sent : list dgram) (evs : list ev) (ws : list cwarn) (r : api_res) :=
  {| out_conn := c; out_env := e; out_sent := sent; out_events := evs; out_warns := ws; out_res := r |}.

Inductive op :=
| OpConnect
| OpSend (d : bytes) (vital : bool)
| OpFlush
| OpTick
| OpDisconnect (reason : bytes)
| OpSendConnless (d : bytes)
| OpFeed (d : dgram)
| OpFeedGarbage            (* a datagram the packet reader rejects: Warning::Read, nothing else *)
| OpReset.

(* PacketBuilder::send of a control packet (Packet::write into 1400 bytes) *)
Definition send_control (st : state6) (c : control) : res unit (list dgram) :=
  let ack := match st with Online o => o_ack o | _ => 0 end in
  match st with
  | Unconnected | Disconnected => Panic site_disconnect_state       (* unreachable!() *)
  | _ =>
    let tok := match st with
               | Connecting => Some TOKEN_NONE
               | Pending t => t
               | Online o => o_their o
               | _ => None
               end in
    if MAX_PACKETSIZE <? control_size params6 tok c then Panic site_builder_capacity
    else Ok [DControl tok ack c]
  end.

(* Token::random: draw until the value is neither NONE nor RESERVED *)
Fixpoint token_random (rnd : list token) : res unit (token * list token) :=
  match rnd with
  | [] => OutOfFuel
  | t :: r =>
    if (list_eq_dec Z.eq_dec t TOKEN_NONE) then token_random r
    else if (list_eq_dec Z.eq_dec t TOKEN_RESERVED) then token_random r
    else Ok (t, r)
  end.

Definition tick_action (c : conn6) (e : env) : res unit outcome :=
  let now := e_now e in
  match c_state c with
  | Connecting =>
    let* d := send_control (c_state c) (Connect None) in
    Ok (mk {| c_state := c_state c; c_send := Some (now + ms 500) |} e d [] [] ROk)
  | Pending _ =>
    let* d := send_control (c_state c) ConnectAccept in
    Ok (mk {| c_state := c_state c; c_send := Some (now + ms 500) |} e d [] [] ROk)
  | Online o =>
    if can_send o then
      let* (o', d) := online_flush params6 o in
      Ok (mk {| c_state := Online o'; c_send := Some (now + ms 500) |} e d [] [] ROk)
    else
      let* d := send_control (c_state c) KeepAlive in
      Ok (mk {| c_state := c_state c; c_send := Some (now + ms 500) |} e d [] [] ROk)
  | _ => Ok (mk c e [] [] [] ROk)
  end.

Definition tok_eqb (a b : option token) : bool :=
  match a, b with
  | None, None => true
  | Some x, Some y => if list_eq_dec Z.eq_dec x y then true else false
  | _, _ => false
  end.

(* the resend inside feed/tick: sets the send timer iff a flush happened in the loop *)
Definition do_resend (c : conn6) (e : env) (o : online) : res unit (conn6 * list dgram) :=
  let* (o', d, timer) := online_resend params6 (e_now e) o in
  Ok ({| c_state := Online o'; c_send := if timer then Some (e_now e + ms 500) else c_send c |}, d).

Definition dgram_tok (d : dgram) : option token :=
  match d with DConnless t _ _ => t | DControl t _ _ => t | DChunks t _ _ _ _ => t end.
Definition dgram_ack (d : dgram) : Z :=
  match d with DConnless _ _ _ => 0 | DControl _ a _ => a | DChunks _ a _ _ _ => a end.

Definition feed (c : conn6) (e : env) (d : dgram) : res unit outcome :=
  match d with
  | DConnless _ _ payload => Ok (mk c e [] [EvConnless payload] [] ROk)
  | _ =>
    let tok := dgram_tok d in
    let ack := dgram_ack d in
    (* the token check *)
    let mismatch := match state_token (c_state c) with
                    | Some expected => negb (tok_eqb tok expected)
                    | None => false
                    end in
    if mismatch then Ok (mk c e [] [] [WTokenMismatch] ROk) else
    if (ack <? 0) || (SEQ_MOD <=? ack) then Panic site_sequence_range else
    (* online.ack_chunks(ack) *)
    let st1 := match c_state c with Online o => Online (ack_chunks o ack) | s => s end in
    let c1 := {| c_state := st1; c_send := c_send c |} in
    match d with
    | DChunks _ _ rr _ chunks =>
      let st2 := match st1 with Pending t => Online (online_new t t) | s => s end in
      let c2 := {| c_state := st2; c_send := c_send c |} in
      match st2 with
      | Online o =>
        let* (c3, sent) := (if rr then do_resend c2 e o else Ok (c2, [])) in
        match c_state c3 with
        | Online o3 =>
          let* (ack', rr', evs) := recv_chunks (o_ack o3) (o_rr o3) chunks in
          Ok (mk {| c_state := Online (o_set_ack o3 ack' rr'); c_send := c_send c3 |} e sent evs [] ROk)
        | _ => Ok (mk c3 e sent [] [] ROk)
        end
      | _ => Ok (mk c2 e [] [] [] ROk)
      end
    | DControl _ _ KeepAlive => Ok (mk c1 e [] [] [] ROk)
    | DControl _ _ (Connect _) =>
      match st1 with
      | Unconnected =>
        match tok with
        | None => tick_action {| c_state := Pending None; c_send := c_send c |} e
        | Some t =>
          if list_eq_dec Z.eq_dec t TOKEN_NONE then
            let* (nt, rnd') := token_random (e_rand e) in
            tick_action {| c_state := Pending (Some nt); c_send := c_send c |}
                        {| e_now := e_now e; e_rand := rnd' |}
          else Ok (mk c1 e [] [] [] ROk)       (* ignore invalid tokens *)
        end
      | _ => Ok (mk c1 e [] [] [] ROk)
      end
    | DControl _ _ ConnectAccept =>
      match st1 with
      | Connecting =>
        let st := Online (online_new tok tok) in
        let* s := send_control st Accept in
        Ok (mk {| c_state := st; c_send := c_send c |} e s [EvReady] [] ROk)
      | _ => Ok (mk c1 e [] [] [] ROk)
      end
    | DControl _ _ Accept => Ok (mk c1 e [] [] [] ROk)
    | DControl _ _ (Close reason) =>
      Ok (mk {| c_state := Disconnected; c_send := c_send c |} e [] [EvDisconnect reason] [] ROk)
    | DControl _ _ (TokenMsg _) => Ok (mk c1 e [] [] [] ROk)   (* not a 0.6 message: the reader never yields it *)
    | DConnless _ _ _ => Ok (mk c1 e [] [] [] ROk)
    end
  end.

Definition step (c : conn6) (e : env) (o : op) : res unit outcome :=
  let now := e_now e in
  match o with
  | OpConnect =>
    match c_state c with
    | Unconnected => tick_action {| c_state := Connecting; c_send := c_send c |} e
    | _ => Panic site_connect_state
    end
  | OpDisconnect reason =>
    match c_state c with
    | Disconnected => Panic site_disconnect_state
    | _ =>
      if existsb (fun b => b =? 0) reason then Panic site_reason_nul else
      let* d := send_control (c_state c) (Close reason) in
      Ok (mk {| c_state := Disconnected; c_send := c_send c |} e d [] [] ROk)
    end
  | OpFlush =>
    match c_state c with
    | Online o =>
      let* (o', d) := online_flush params6 o in
      Ok (mk {| c_state := Online o'; c_send := Some (now + ms 500) |} e d [] [] ROk)
    | _ => Panic site_state_not_online
    end
  | OpSend data vital =>
    match c_state c with
    | Online o =>
      let* (o', d, r) := online_send params6 now o data vital in
      Ok (mk {| c_state := Online o'; c_send := c_send c |} e d [] []
             (match r with SendOk => ROk | SendTooLong => RTooLongData end))
    | _ => Panic site_state_not_online
    end
  | OpSendConnless data =>
    match c_state c with
    | Online o =>
      if MAX_PAYLOAD <? Z.of_nat (length data)
      then Ok (mk {| c_state := c_state c; c_send := Some (now + ms 500) |} e [] [] [] RTooLongData)
      else Ok (mk {| c_state := c_state c; c_send := Some (now + ms 500) |} e
                  [DConnless None None data] [] [] ROk)
    | _ => Panic site_state_not_online
    end
  | OpTick =>
    let do_rs := match c_state c with
                 | Online o => match queue_back (o_queue o) with
                               | Some rc => triggered (rc_next rc) now
                               | None => false
                               end
                 | _ => false
                 end in
    if do_rs then
      match c_state c with
      | Online o => let* (c', d) := do_resend c e o in Ok (mk c' e d [] [] ROk)
      | _ => Ok (mk c e [] [] [] ROk)
      end
    else if triggered (c_send c) now then
      tick_action {| c_state := c_state c; c_send := None |} e
    else Ok (mk c e [] [] [] ROk)
  | OpFeed d => feed c e d
  | OpFeedGarbage => Ok (mk c e [] [] [] ROk)
  | OpReset =>
    match c_state c with
    | Disconnected => Ok (mk conn6_new e [] [] [] ROk)
    | _ => Panic site_reset_state
    end
  end.

Definition needs_tick (c : conn6) : timeout :=
  match c_state c with
  | Unconnected | Disconnected => None
  | Online o =>
    tmin (c_send c) (match queue_back (o_queue o) with Some rc => rc_next rc | None => None end)
  | _ => tmin (c_send c) None
  end.

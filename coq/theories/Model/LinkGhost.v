(* Ghost vocabulary for the two-endpoint link (C01): histories of submitted / delivered
   vital payloads, ghost-annotated datagrams in flight, and the shape predicates the
   invariant is made of. Definitions only (used by proofs, not extracted). *)
From LibTw2 Require Export Model.ConnCore.
Open Scope Z_scope.

Definition seqof (i : Z) : Z := i mod SEQ_MOD.
(* 1-based access to a history *)
Definition subn (sub : list bytes) (i : Z) : bytes := nth (Z.to_nat (i - 1)) sub [].
Definition zlen {A} (l : list A) : Z := Z.of_nat (length l).

(* a datagram in flight with the sender's ghost counters at the time it was emitted *)
Record flight := { f_d : dgram; f_n : Z (* |submitted| *); f_c : Z (* |delivered| *) }.

(* the resend queue holds exactly the chunks a+1 .. n, newest first *)
Fixpoint queue_is (q : list rchunk) (a n : Z) (sub : list bytes) : Prop :=
  match q with
  | [] => n = a
  | c :: r => a < n /\ rc_seq c = seqof n /\ rc_data c = subn sub n /\ queue_is r a (n - 1) sub
  end.

(* a chunk sitting in a packet under construction: a vital chunk is chunk number i of the history,
   not older than 512 plus the number of chunks written after it; a non-vital one was really sent *)
Definition chunk_is (c : chunk) (n : Z) (slack : Z) (sub nvs : list bytes) : Prop :=
  match ch_vital c with
  | Some (s, _) => exists i, 1 <= i <= n /\ n - i < slack /\ s = seqof i /\ ch_data c = subn sub i
  | None => In (ch_data c) nvs
  end.

Fixpoint pk_ok (cs : list chunk) (n : Z) (sub nvs : list bytes) : Prop :=
  match cs with
  | [] => True
  | c :: r => chunk_is c n (512 + zlen r) sub nvs /\ pk_ok r n sub nvs
  end.

Definition nonvital_only (cs : list chunk) : Prop := Forall (fun c => ch_vital c = None) cs.

(* a datagram in flight, relative to its sender's histories *)
Definition dgram_chunks (d : dgram) : list chunk :=
  match d with DChunks _ _ _ _ cs => cs | _ => [] end.
Definition dgram_ack_of (d : dgram) : option Z :=
  match d with DChunks _ a _ _ _ => Some a | DControl _ a _ => Some a | DConnless _ _ _ => None end.

Definition flight_ok (f : flight) (n dc : Z) (sub nvs : list bytes) : Prop :=
  0 <= f_n f <= n /\ 0 <= f_c f <= dc /\
  (forall a, dgram_ack_of (f_d f) = Some a -> a = seqof (f_c f)) /\
  (length (dgram_chunks (f_d f)) <= 255)%nat /\
  Forall (fun c => chunk_is c (f_n f) 1024 sub nvs) (dgram_chunks (f_d f)).

(* the index a vital chunk of a datagram in flight denotes: the unique i in (f_n - 1024, f_n]
   with i = s (mod 1024) *)
Definition idx_of (fn s : Z) : Z := fn - ((fn - s) mod SEQ_MOD).

(* payloads of the events of one call *)
Definition vital_payloads (evs : list ev) : list bytes :=
  flat_map (fun e => match e with EvChunk d true => [d] | _ => [] end) evs.
Definition nonvital_payloads (evs : list ev) : list bytes :=
  flat_map (fun e => match e with EvChunk d false => [d] | _ => [] end) evs.
Definition ready_events (evs : list ev) : Z :=
  zlen (filter (fun e => match e with EvReady => true | _ => false end) evs).

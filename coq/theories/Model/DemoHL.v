(* Model of the demo crate, high-level layer: demo/src/ddnet/writer.rs (DemoWriter::new,
   write_snap, write_msg) and demo/src/ddnet/reader.rs (DemoReader::new, next_chunk), on top of
   Model/Demo.v (raw Writer / Reader) and Model/Snap.v (Snap, Builder, Delta and their wire forms).
   Definitions only.

   The typed layer is cut at the interfaces of gamenet: a snapshot object is what
   `item.obj_type_id()` and `item.encode()` return (a type id and a list of i32), a game message
   is the byte string `msg.encode(p)` writes, `P::obj_size` is a table.  The reader side is
   modelled up to `snap.items()` / the padded message bytes (what decode_obj / Game::decode are
   then given).

   DemoWriter state that matters between calls: the inner writer's prev_tick, last_tick,
   last_keyframe, the last written snapshot, the builder recycled from (a copy of) it, and
   `buf` (an ArrayVec that is only cleared on the success paths: after a capacity error it keeps
   the fitting prefix, see buffer/src/impls/arrayvec.rs Drop). *)
From LibTw2 Require Export Base.Res Model.Varint Model.Demo.
From LibTw2 Require Model.Snap.
Open Scope Z_scope.

Definition site_keyframe_sub : Z := 1520.    (* `tick - last_keyframe` overflows i32 (debug build) *)
Definition site_recycle : Z := 1521.         (* a panic inside Snap::recycle *)
Definition site_delta_create : Z := 1522.    (* a panic inside Delta::create *)
Definition site_snap_write : Z := 1523.      (* a panic inside Snap::write / Delta::write *)

(* ddnet::WriteError (Inner is an I/O error: not reachable on an in-memory file) *)
Inductive hwerr :=
| HSnapBuilder (e : Snap.berr)
| HTooLowTickNumber
| HTooLargeSnap
| HTooLongNetMsg.

(* a snapshot object as handed to Builder::add_item *)
Definition hitem := (Snap.tyid * Z * list Z)%type.       (* obj_type_id(), id, encode() *)

Record hwriter := {
  hw_prev : option Z;                 (* inner.prev_tick *)
  hw_last_tick : Z;
  hw_last_keyframe : option Z;
  hw_snap : Snap.snap;
  hw_builder : Snap.builder;
  hw_buf : bytes }.

(* DemoWriter::new after the header is written *)
Definition hwriter_new : hwriter :=
  {| hw_prev := None; hw_last_tick := -1; hw_last_keyframe := None;
     hw_snap := Snap.snap_empty; hw_builder := Snap.builder_new; hw_buf := [] |}.

(* `for (item, id) in items { self.builder.add_item(..)? }` *)
Fixpoint add_items (b : Snap.builder) (items : list hitem) : Snap.builder * res Snap.berr unit :=
  match items with
  | [] => (b, Ok tt)
  | (ty, id, data) :: r =>
    match Snap.builder_add b ty id data with
    | (b', Ok _) => add_items b' r
    | (b', e) => (b', e)
    end
  end.

(* with_packer(&mut self.buf, f): f's bytes go behind what buf already holds; the fitting prefix
   stays in buf also when the capacity is exceeded.  `enc` is everything f would write. *)
Definition buf_append (buf enc : bytes) : bytes * bool :=
  let total := buf ++ enc in
  if DEMO_MAX_SIZE <? zlen total
  then (match split_at DEMO_MAX_SIZE total with Some (a, _) => a | None => total end, false)
  else (total, true).

(* the bytes Snap::write / Delta::write hand to the packer when nothing fails; for Snap::write
   also whether the final `assert!(written <= MAX_SNAPSHOT_SIZE)` holds (it is only reached when
   no write failed) *)
Definition snap_encoding (sn : Snap.snap) : res unit (bytes * bool) :=
  match Snap.snap_ints (Snap.sn_raw sn) with
  | Ok l =>
    match Snap.ints_to_bytes l with
    | Ok bs => Ok (bs, 4 * zlen l <=? Snap.MAX_SNAPSHOT_SIZE)
    | Err _ => Panic site_arrayvec_push
    | Panic s => Panic s
    | OutOfFuel => OutOfFuel
    end
  | Err _ => Panic Snap.site_assert_i32
  | Panic s => Panic s
  | OutOfFuel => OutOfFuel
  end.
Definition delta_encoding (sz : Snap.osize) (d : Snap.delta) : res unit (bytes * bool) :=
  match Snap.delta_ints sz d with
  | Ok l =>
    match Snap.ints_to_bytes l with
    | Ok bs => Ok (bs, true)
    | Err _ => Panic site_arrayvec_push
    | Panic s => Panic s
    | OutOfFuel => OutOfFuel
    end
  | Err _ => Panic Snap.site_assert_i32
  | Panic s => Panic s
  | OutOfFuel => OutOfFuel
  end.

(* the tick test of write_snap.  The code before the repair of defect #13 read
   `tick < self.last_tick`, so an equal tick went on to the assert in TickMarker::new. *)
Definition tick_refused (w : hwriter) (tick : Z) : bool := tick <=? hw_last_tick w.

(* DemoWriter::write_snap: new state, bytes appended to the file, result *)
Definition write_snap (sz : Snap.osize) (w : hwriter) (tick : Z) (items : list hitem)
  : hwriter * bytes * res hwerr unit :=
  if tick_refused w tick then (w, [], Err HTooLowTickNumber) else
  (* is_keyframe *)
  let kf : res hwerr bool :=
    match hw_last_keyframe w with
    | None => Ok true
    | Some lk => if is_i32 (tick - lk) then Ok (250 <? tick - lk) else Panic site_keyframe_sub
    end in
  match kf with
  | Err e => (w, [], Err e) | Panic s => (w, [], Panic s) | OutOfFuel => (w, [], OutOfFuel)
  | Ok is_keyframe =>
  match add_items (hw_builder w) items with
  | (b', Err e) =>
    (* the `?` returns with what was added so far still in the builder *)
    ({| hw_prev := hw_prev w; hw_last_tick := hw_last_tick w; hw_last_keyframe := hw_last_keyframe w;
        hw_snap := hw_snap w; hw_builder := b'; hw_buf := hw_buf w |}, [], Err (HSnapBuilder e))
  | (b', Panic s) => (w, [], Panic s)
  | (b', OutOfFuel) => (w, [], OutOfFuel)
  | (b', Ok _) =>
    let old_snap := hw_snap w in                               (* mem::take(&mut self.snap) *)
    let new_snap := Snap.builder_finish b' in                  (* mem::take(&mut self.builder).finish() *)
    match write_tick (hw_prev w) is_keyframe tick with
    | Ok (tb, prev') =>
      (* the state if one of the `?` below returns: snap and builder were taken *)
      let taken (buf : bytes) : hwriter :=
        {| hw_prev := prev'; hw_last_tick := hw_last_tick w; hw_last_keyframe := hw_last_keyframe w;
           hw_snap := Snap.snap_empty; hw_builder := Snap.builder_new; hw_buf := buf |} in
      let enc : res unit (bytes * bool) :=
        if is_keyframe then snap_encoding new_snap
        else match Snap.create_raw (Snap.sn_raw old_snap) (Snap.sn_raw new_snap) with
             | Ok d => delta_encoding sz d
             | Err _ => Panic site_delta_create
             | Panic s => Panic s
             | OutOfFuel => OutOfFuel
             end in
      match enc with
      | Ok (e, assert_ok) =>
        match buf_append (hw_buf w) e with
        | (buf', false) => (taken buf', tb, Err HTooLargeSnap)
        | (buf', true) =>
          if negb assert_ok then (taken buf', tb, Panic Snap.site_write_size) else
          match write_chunk_impl (if is_keyframe then KSnapshot else KSnapshotDelta) buf' with
          | Ok cb =>
            (* since the repair of the second C15 defect: `new_snap.clone().recycle()`; before it was
               `old_snap.recycle()`, which numbered extended types from the snapshot before the last *)
            match Snap.snap_recycle new_snap with
            | Ok nb =>
              ({| hw_prev := prev'; hw_last_tick := tick;
                  hw_last_keyframe := if is_keyframe then Some tick else hw_last_keyframe w;
                  hw_snap := new_snap; hw_builder := nb; hw_buf := [] |}, tb ++ cb, Ok tt)
            | Err _ => (taken buf', tb ++ cb, Panic site_recycle)
            | Panic s => (taken buf', tb ++ cb, Panic s)
            | OutOfFuel => (taken buf', tb ++ cb, OutOfFuel)
            end
          | Err _ => (taken buf', tb, Panic site_compress)
          | Panic s => (taken buf', tb, Panic s)
          | OutOfFuel => (taken buf', tb, OutOfFuel)
          end
        end
      | Err _ => (taken (hw_buf w), tb, Panic site_snap_write)
      | Panic s => (taken (hw_buf w), tb, Panic s)
      | OutOfFuel => (taken (hw_buf w), tb, OutOfFuel)
      end
    | Err _ => (w, [], Panic site_tick_order)
    | Panic s =>
      ({| hw_prev := hw_prev w; hw_last_tick := hw_last_tick w; hw_last_keyframe := hw_last_keyframe w;
          hw_snap := Snap.snap_empty; hw_builder := Snap.builder_new; hw_buf := hw_buf w |}, [], Panic s)
    | OutOfFuel => (w, [], OutOfFuel)
    end
  end end.

(* DemoWriter::write_msg; `enc` is what msg.encode(p) writes *)
Definition write_msg (w : hwriter) (enc : bytes) : hwriter * bytes * res hwerr unit :=
  let set_buf (buf : bytes) : hwriter :=
    {| hw_prev := hw_prev w; hw_last_tick := hw_last_tick w; hw_last_keyframe := hw_last_keyframe w;
       hw_snap := hw_snap w; hw_builder := hw_builder w; hw_buf := buf |} in
  match buf_append (hw_buf w) enc with
  | (buf', false) => (set_buf buf', [], Err HTooLongNetMsg)
  | (buf', true) =>
    match write_message buf' with
    | Ok mb => (set_buf [], mb, Ok tt)
    | Err _ => (set_buf buf', [], Panic site_compress)
    | Panic s => (set_buf buf', [], Panic s)
    | OutOfFuel => (set_buf buf', [], OutOfFuel)
    end
  end.

Inductive hop := HSnap (tick : Z) (items : list hitem) | HMsg (enc : bytes).

Definition hstep (sz : Snap.osize) (w : hwriter) (o : hop) : hwriter * bytes * res hwerr unit :=
  match o with
  | HSnap tick items => write_snap sz w tick items
  | HMsg enc => write_msg w enc
  end.

(* a history of calls: the file bytes behind the header and the result of every call.
   A panicking call ends the run (the harness does the same). *)
Fixpoint hrun (sz : Snap.osize) (w : hwriter) (ops : list hop) : hwriter * bytes * list (res hwerr unit) :=
  match ops with
  | [] => (w, [], [])
  | o :: r =>
    match hstep sz w o with
    | (w', b, (Panic s) as res0) => (w', b, [res0])
    | (w', b, OutOfFuel) => (w', b, [OutOfFuel])
    | (w', b, res0) =>
      match hrun sz w' r with
      | (w'', b', rs) => (w'', b ++ b', res0 :: rs)
      end
    end
  end.

(* ---------- DemoReader ---------- *)

Inductive hwarn :=
| HWDemo (w : dwarn)
| HWSnapshot (w : Snap.swarn).

Inductive hrerr :=
| HEInner (e : rerr)
| HESnap (e : Snap.serr).

(* Chunk, before the typed decoders *)
Inductive hchunk :=
| HCTick (tick : Z)
| HCMessage (padded : bytes)                      (* what Unpacker::new_from_demo is given *)
| HCSnapshot (items : list hitem)                 (* snap.items(), what decode_obj is given *)
| HCInvalid.

Record hreader := { hr_raw : dstate; hr_snap : Snap.snap }.

Definition hwres (A : Type) : Type := (res hrerr A * list hwarn)%type.

Definition snap_chunk (sn : Snap.snap) : res hrerr (list hitem) :=
  match @Snap.snap_items hrerr sn with
  | Ok (_, l) => Ok l
  | Err e => Err e | Panic s => Panic s | OutOfFuel => OutOfFuel
  end.

(* the part of DemoReader::next_chunk behind raw.read_chunk: what is made of a raw chunk, given
   the last snapshot; returns the chunk and the snapshot kept for the next delta *)
Definition decode_chunk (sz : Snap.osize) (last : Snap.snap) (c : chunk) : hwres (hchunk * Snap.snap) :=
  match c with
  | CUnknown => (Ok (HCInvalid, last), [])
  | CTick t _ => (Ok (HCTick t, last), [])
  | CMessage m => (Ok (HCMessage m, last), [])
  | CSnapshot d =>
    match Snap.snap_read_bytes d with
    | (Ok sn, sw) =>
      let ws := map HWSnapshot sw in
      match snap_chunk sn with
      | Ok l => (Ok (HCSnapshot l, sn), ws)
      | Err e => (Err e, ws) | Panic s => (Panic s, ws) | OutOfFuel => (OutOfFuel, ws)
      end
    | (Err e, sw) => (Err (HESnap e), map HWSnapshot sw)
    | (Panic s, sw) => (Panic s, map HWSnapshot sw)
    | (OutOfFuel, sw) => (OutOfFuel, map HWSnapshot sw)
    end
  | CDelta d =>
    match Snap.delta_read_bytes sz d with
    | (Ok dl, dw) =>
      match Snap.snap_read_with_delta last dl with
      | (Ok sn, sw) =>
        let ws := map HWSnapshot dw ++ map HWSnapshot sw in
        match snap_chunk sn with
        | Ok l => (Ok (HCSnapshot l, sn), ws)
        | Err e => (Err e, ws) | Panic s => (Panic s, ws) | OutOfFuel => (OutOfFuel, ws)
        end
      | (Err e, sw) => (Err (HESnap e), map HWSnapshot dw ++ map HWSnapshot sw)
      | (Panic s, sw) => (Panic s, map HWSnapshot dw ++ map HWSnapshot sw)
      | (OutOfFuel, sw) => (OutOfFuel, map HWSnapshot dw ++ map HWSnapshot sw)
      end
    | (Err e, dw) => (Err (HESnap e), map HWSnapshot dw)
    | (Panic s, dw) => (Panic s, map HWSnapshot dw)
    | (OutOfFuel, dw) => (OutOfFuel, map HWSnapshot dw)
    end
  end.

(* DemoReader::next_chunk *)
Definition next_chunk (sz : Snap.osize) (v : version) (r : hreader) : hwres (option (hchunk * hreader)) :=
  match read_chunk v (hr_raw r) with
  | (Ok None, ws) => (Ok None, map HWDemo ws)
  | (Ok (Some (c, st)), ws) =>
    match decode_chunk sz (hr_snap r) c with
    | (Ok (hc, sn), ws') => (Ok (Some (hc, {| hr_raw := st; hr_snap := sn |})), map HWDemo ws ++ ws')
    | (Err e, ws') => (Err e, map HWDemo ws ++ ws')
    | (Panic s, ws') => (Panic s, map HWDemo ws ++ ws')
    | (OutOfFuel, ws') => (OutOfFuel, map HWDemo ws ++ ws')
    end
  | (Err e, ws) => (Err (HEInner e), map HWDemo ws)
  | (Panic s, ws) => (Panic s, map HWDemo ws)
  | (OutOfFuel, ws) => (OutOfFuel, map HWDemo ws)
  end.

Fixpoint next_chunks (fuel : bytes) (sz : Snap.osize) (v : version) (r : hreader)
  : list (hchunk * list hwarn) * hwres unit :=
  match fuel with
  | [] => ([], (OutOfFuel, []))
  | _ :: fuel' =>
    match next_chunk sz v r with
    | (Ok None, ws) => ([], (Ok tt, ws))
    | (Ok (Some (c, r')), ws) =>
      let (cs, e) := next_chunks fuel' sz v r' in ((c, ws) :: cs, e)
    | (Err e, ws) => ([], (Err e, ws))
    | (Panic s, ws) => ([], (Panic s, ws))
    | (OutOfFuel, ws) => ([], (OutOfFuel, ws))
    end
  end.

(* DemoReader::new, then next_chunk to the end *)
Definition hread_all (sz : Snap.osize) (file : bytes)
  : res rerr (rheader * list dwarn * (list (hchunk * list hwarn) * hwres unit)) :=
  match reader_new file with
  | Ok (h, rest, ws) =>
    Ok (h, ws, next_chunks (0 :: rest) sz (rh_version h)
                 {| hr_raw := {| ds_rest := rest; ds_tick := None |}; hr_snap := Snap.snap_empty |})
  | Err e => Err e | Panic p => Panic p | OutOfFuel => OutOfFuel
  end.

(* P::obj_size as a table: (type id, size) *)
Fixpoint osize_of (tbl : list (Z * Z)) (ty : Z) : option Z :=
  match tbl with
  | [] => None
  | (t, s) :: r => if t =? ty then Some s else osize_of r ty
  end.

(* Model of the datafile reader: datafile/src/format.rs (Header::read, HeaderVersion/
   HeaderRest::check, check_size_and_swaplen), datafile/src/raw.rs (Reader::new, check,
   item_header, item, item_type_indices, find_item, data_size_file, read_data, the
   iterators), datafile/src/bitmagic.rs (read_exact_le_i32s_owned, seek_read_exact_owned),
   common/src/slice.rs (relative_size_of_mult) -- as the code stands after the two `fix:`
   commits (checked `num_items - start`; item sizes must be multiples of four).

   The file is a byte list; the `CallbackNew` object is the list of bytes not yet read
   (`read` hands out min(wanted, remaining) bytes, like file.rs' read_retry); the
   `CallbackReadData` object is the byte list behind the seek base. zlib's uncompress is a
   parameter. A little-endian target is assumed (from_little_endian is the identity).
   Every slice index, sub-slice, `assert!`, `assert_*` cast, `unreachable!` and every
   + - * that can overflow in a debug build is an explicit Panic site. Allocation sizes
   (Vec::with_capacity of attacker-chosen counts) are outside the model except for the
   capacity-overflow panic.

   Second half: an independent writer specification transcribed from doc/datafile.md.
   Definitions only. *)
From LibTw2 Require Export Base.Res.
Open Scope Z_scope.

(* ---------- panic sites ---------- *)
Definition site_index_item_offsets : Z := 1601.  (* self.item_offsets[i] *)
Definition site_index_data_offsets : Z := 1602.  (* self.data_offsets[i] *)
Definition site_index_uds : Z := 1603.           (* uds[i] *)
Definition site_index_item_types : Z := 1604.    (* self.item_types[index] *)
Definition site_slice_items_raw : Z := 1605.     (* &self.items_raw[a..][..b] *)
Definition site_rsom_assert : Z := 1606.         (* assert!(mult * size_of::<T>() % size_of::<U>() == 0) *)
Definition site_assert_cast : Z := 1607.         (* Cast::assert_usize / assert_u16 / assert_u32 / assert_u64 *)
Definition site_i32_overflow : Z := 1608.        (* i32 + - * in a debug build *)
Definition site_usize_overflow : Z := 1609.      (* usize + - * in a debug build *)
Definition site_unreachable : Z := 1610.         (* unreachable!() in Reader::new *)
Definition site_assert_start_le_end : Z := 1611. (* assert!(start <= end) in data_size_file *)
Definition site_capacity : Z := 1612.            (* Vec::with_capacity: capacity overflow *)
Definition site_impossible : Z := 1699.          (* a branch of the model no execution reaches (proved) *)

(* ---------- machine integers ---------- *)
Definition two32 : Z := 4294967296.
Definition two31 : Z := 2147483648.
Definition two64 : Z := 18446744073709551616.
Definition isize_max : Z := 9223372036854775807.
Definition u32_of (z : Z) : Z := z mod two32.                          (* `as u32` *)
Definition i32_of (u : Z) : Z := if u <? two31 then u else u - two32.  (* bit pattern -> i32 *)
Definition as_usize (z : Z) : Z := z mod two64.                        (* `as usize` of an i32 *)

Section Arith.
Context {E : Type}.
Definition i32_add (a b : Z) : res E Z := let r := a + b in if is_i32 r then Ok r else Panic site_i32_overflow.
Definition i32_sub (a b : Z) : res E Z := let r := a - b in if is_i32 r then Ok r else Panic site_i32_overflow.
Definition i32_mul (a b : Z) : res E Z := let r := a * b in if is_i32 r then Ok r else Panic site_i32_overflow.
Definition usize_add (a b : Z) : res E Z := let r := a + b in if r <? two64 then Ok r else Panic site_usize_overflow.
Definition usize_sub (a b : Z) : res E Z := let r := a - b in if 0 <=? r then Ok r else Panic site_usize_overflow.
Definition usize_mul (a b : Z) : res E Z := let r := a * b in if r <? two64 then Ok r else Panic site_usize_overflow.
(* i32 -> usize / u64 *)
Definition assert_usize (a : Z) : res E Z := if 0 <=? a then Ok a else Panic site_assert_cast.
Definition assert_u16 (a : Z) : res E Z := if (0 <=? a) && (a <? 65536) then Ok a else Panic site_assert_cast.
Definition assert_u32 (a : Z) : res E Z := if (0 <=? a) && (a <? two32) then Ok a else Panic site_assert_cast.
(* common/src/slice.rs relative_size_of_mult::<T,U>(mult) with size_of T = st, size_of U = su *)
Definition rsom (mult st su : Z) : res E Z :=
  let* p := usize_mul mult st in
  if p mod su =? 0 then Ok (p / su) else Panic site_rsom_assert.

(* ---------- lists indexed by machine integers ---------- *)
Fixpoint znth {A} (l : list A) (i : Z) : option A :=
  match l with
  | [] => None
  | x :: r => if i =? 0 then Some x else znth r (i - 1)
  end.
Definition index {A} (l : list A) (i : Z) (site : Z) : res E A :=
  if i <? 0 then Panic site else
  match znth l i with Some x => Ok x | None => Panic site end.
Definition zlen {A} (l : list A) : Z := Z.of_nat (length l).
(* &l[a..] and &l[..b] *)
Definition slice_from {A} (l : list A) (a : Z) (site : Z) : res E (list A) :=
  if (a <? 0) || (zlen l <? a) then Panic site else Ok (skipn (Z.to_nat a) l).
Definition slice_to {A} (l : list A) (b : Z) (site : Z) : res E (list A) :=
  if (b <? 0) || (zlen l <? b) then Panic site else Ok (firstn (Z.to_nat b) l).
End Arith.

(* ---------- bytes <-> little-endian words ---------- *)
Definition le_u32 (b0 b1 b2 b3 : Z) : Z := b0 + 256 * b1 + 65536 * b2 + 16777216 * b3.
Fixpoint words_of_bytes (bs : bytes) : list Z :=
  match bs with
  | b0 :: b1 :: b2 :: b3 :: r => i32_of (le_u32 b0 b1 b2 b3) :: words_of_bytes r
  | _ => []
  end.

(* ---------- format.rs ---------- *)
Inductive err :=
| WrongMagic | UnsupportedVersion (v : Z) | MalformedHeader | Malformed
| CompressionWrongSize | CompressionError (code : Z)
| TooShort | TooShortHeaderVersion | TooShortHeader.

Record header := {
  h_version : Z; h_size : Z; h_swaplen : Z; h_num_item_types : Z; h_num_items : Z;
  h_num_data : Z; h_size_items : Z; h_size_data : Z }.
Record itype := { t_type_id : Z; t_start : Z; t_num : Z }.
Inductive version := V3 | V4Crude | V4.

(* CallbackNew::read on the remaining bytes: (what was read, what remains) *)
Definition cb_read (n : Z) (cur : bytes) : bytes * bytes :=
  if zlen cur <=? n then (cur, [])
  else if n <=? 0 then ([], cur)
  else (firstn (Z.to_nat n) cur, skipn (Z.to_nat n) cur).

Definition magic_data : bytes := [68; 65; 84; 65].      (* "DATA" *)
Definition magic_atad : bytes := [65; 84; 65; 68].      (* "ATAD" *)
Definition bytes_eqb (a b : bytes) : bool :=
  (length a =? length b)%nat && forallb (fun p => fst p =? snd p) (combine a b).

(* HeaderRest::check *)
Definition header_rest_check (h : header) : res err unit :=
  if h_size h <? 0 then Err MalformedHeader
  else if h_swaplen h <? 0 then Err MalformedHeader
  else if h_num_item_types h <? 0 then Err MalformedHeader
  else if h_num_items h <? 0 then Err MalformedHeader
  else if h_num_data h <? 0 then Err MalformedHeader
  else if h_size_items h <? 0 then Err MalformedHeader
  else if h_size_data h <? 0 then Err MalformedHeader
  else if negb (u32_of (h_size_items h) mod 4 =? 0) then Err MalformedHeader
  else Ok tt.

(* Header::read: up to 36 bytes into a zeroed struct; the checks run on what is there *)
Definition header_read (cur : bytes) : res err (header * bytes) :=
  let (got, rest) := cb_read 36 cur in
  let read := zlen got in
  if read <? 8 then Err TooShortHeaderVersion else
  let buf := got ++ repeat 0 (36 - length got)%nat in
  let magic := firstn 4 buf in
  match words_of_bytes buf with
  | [_; ver; size; swaplen; nit; ni; nd; si; sd] =>
    (* HeaderVersion::check *)
    if negb (bytes_eqb magic magic_data) && negb (bytes_eqb magic magic_atad) then Err WrongMagic
    else if negb (ver =? 3) && negb (ver =? 4) then Err (UnsupportedVersion ver)
    else if read <? 36 then Err TooShortHeader
    else
      let h := {| h_version := ver; h_size := size; h_swaplen := swaplen; h_num_item_types := nit;
                  h_num_items := ni; h_num_data := nd; h_size_items := si; h_size_data := sd |} in
      let* _ := header_rest_check h in
      Ok (h, rest)
  | _ => Panic site_impossible
  end.

(* Header::calculate_total_size: u64 arithmetic on assert_u64'ed fields, then try_i32 *)
Definition calculate_total_size (h : header) : res err Z :=
  let* nit := assert_usize (h_num_item_types h) in
  let* ni := assert_usize (h_num_items h) in
  let* nd := assert_usize (h_num_data h) in
  let* si := assert_usize (h_size_items h) in
  let* sd := assert_usize (h_size_data h) in
  let* a := usize_mul 12 nit in
  let* b := usize_mul 4 ni in
  let* c := usize_mul 4 nd in
  let* d := if 4 <=? h_version h then usize_mul 4 nd else Ok 0 in
  let* s1 := usize_add 36 a in
  let* s2 := usize_add s1 b in
  let* s3 := usize_add s2 c in
  let* s4 := usize_add s3 d in
  let* s5 := usize_add s4 si in
  let* s6 := usize_add s5 sd in
  if s6 <=? i32_max then Ok s6 else Err MalformedHeader.

Definition calculate_size_field (h : header) (total : Z) (crude : bool) : res err Z :=
  let* r := i32_sub total 16 in
  if crude then
    let* m := i32_mul 4 (h_num_data h) in
    i32_sub r m
  else Ok r.

Definition calculate_swaplen_field (h : header) (total : Z) (crude : bool) : res err Z :=
  let* s := calculate_size_field h total crude in
  i32_sub s (h_size_data h).

(* Header::check_size_and_swaplen: (expected_size, crude_version) *)
Definition check_size_and_swaplen (h : header) : res err (Z * bool) :=
  let* total := calculate_total_size h in
  let* size0 := calculate_size_field h total false in
  let* size1 := calculate_size_field h total true in
  let* swaplen0 := calculate_swaplen_field h total false in
  let* swaplen1 := calculate_swaplen_field h total true in
  if negb (h_size h =? size0) && negb (h_size h =? size1) then Err MalformedHeader
  else if negb (h_swaplen h =? swaplen0) && negb (h_swaplen h =? swaplen1) then Err MalformedHeader
  else
    let* es := assert_u32 total in
    Ok (es, negb (h_size h =? size0)).

(* ---------- raw.rs ---------- *)
Record reader := {
  r_hdr : header;
  r_item_types : list itype;
  r_item_offsets : list Z;
  r_data_offsets : list Z;
  r_uds : option (list Z);
  r_items_raw : list Z;
  r_version : version;
  r_data : bytes   (* the bytes behind the seek base *)
}.

(* read_exact_le_i32s_owned::<T>(count) for a T of `per` words: Vec::with_capacity(count),
   read_exact on 4*per*count bytes (EndOfFile -> TooShort), words taken little-endian *)
Definition read_words (per : Z) (count : Z) (cur : bytes) : res err (list Z * bytes) :=
  let n := as_usize count in
  let nbytes := 4 * per * n in
  if isize_max <? nbytes then Panic site_capacity else
  let (got, rest) := cb_read nbytes cur in
  if negb (zlen got =? nbytes) then Err TooShort else
  Ok (words_of_bytes got, rest).

Fixpoint item_types_of (ws : list Z) : list itype :=
  match ws with
  | a :: b :: c :: r => {| t_type_id := a; t_start := b; t_num := c |} :: item_types_of r
  | _ => []
  end.

Definition has_compressed_data (v : version) : bool :=
  match v with V3 => false | _ => true end.

(* Reader::item_header: &self.items_raw[rsom::<u8,i32>(offsets[index].assert_usize())..][..2],
   transmuted to one ItemHeader *)
Definition item_header (r : reader) (idx : Z) : res err (Z * Z) :=
  let* off := index (r_item_offsets r) idx site_index_item_offsets in
  let* offu := assert_usize off in
  let* w := rsom offu 1 4 in
  let* s1 := slice_from (r_items_raw r) w site_slice_items_raw in
  let* s2 := slice_to s1 2 site_slice_items_raw in
  match s2 with
  | [a; b] => Ok (a, b)
  | _ => Panic site_impossible
  end.

Definition ih_type_id (tw : Z) : Z := (u32_of tw / 65536) mod 65536.
Definition ih_id (tw : Z) : Z := u32_of tw mod 65536.

(* first block of Reader::check: the item type table *)
Fixpoint check_types (num_items : Z) (ts : list itype) (expected_start : Z)
         (previous : option Z) (seen : list itype) : res err Z :=
  match ts with
  | [] => Ok expected_start
  | t :: rest =>
    if negb ((0 <=? t_type_id t) && (t_type_id t <? 65536)) then Err Malformed else
    if (match previous with Some p => negb (p <? t_type_id t) | None => false end) then Err Malformed else
    (* fixed: num_items.checked_sub(start) *)
    let d := num_items - t_start t in
    if negb ((0 <=? t_num t) && (is_i32 d && (t_num t <=? d))) then Err Malformed else
    if negb (t_start t =? expected_start) then Err Malformed else
    let* es := i32_add expected_start (t_num t) in
    if existsb (fun t2 => t_type_id t2 =? t_type_id t) seen then Err Malformed else
    check_types num_items rest es (Some (t_type_id t)) (seen ++ [t])
  end.

(* second block: `for i in 0..num_items as usize` *)
Fixpoint check_items (fuel : nat) (r : reader) (i : Z) (offset : Z) : res err Z :=
  if as_usize (h_num_items (r_hdr r)) <=? i then Ok offset else
  match fuel with
  | O => OutOfFuel
  | S fuel' =>
    let* off_i := index (r_item_offsets r) i site_index_item_offsets in
    if off_i <? 0 then Err Malformed else
    if negb (offset =? as_usize off_i) then Err Malformed else
    let* offset := usize_add offset 8 in
    if as_usize (h_size_items (r_hdr r)) <? offset then Err Malformed else
    let* ih := item_header r i in
    if snd ih <? 0 then Err Malformed else
    (* fixed: sizes must be multiples of four *)
    if negb (as_usize (snd ih) mod 4 =? 0) then Err Malformed else
    let* offset := usize_add offset (as_usize (snd ih)) in
    if as_usize (h_size_items (r_hdr r)) <? offset then Err Malformed else
    check_items fuel' r (i + 1) offset
  end.

(* third block: `for i in 0..num_data as usize` *)
Fixpoint check_data (fuel : nat) (r : reader) (i : Z) (previous : Z) : res err unit :=
  if as_usize (h_num_data (r_hdr r)) <=? i then Ok tt else
  match fuel with
  | O => OutOfFuel
  | S fuel' =>
    let* _ := match r_uds r with
              | Some uds =>
                let* u := index uds i site_index_uds in
                if u <? 0 then Err Malformed else Ok tt
              | None => Ok tt
              end in
    let* offset := index (r_data_offsets r) i site_index_data_offsets in
    if (offset <? 0) || (h_size_data (r_hdr r) <? offset) then Err Malformed else
    if offset <? previous then Err Malformed else
    check_data fuel' r (i + 1) offset
  end.

(* fourth block, inner loop: `for k in start as usize..(start + num) as usize` *)
Fixpoint check_type_items (fuel : nat) (r : reader) (k hi : Z) (type_id : Z) : res err unit :=
  if hi <=? k then Ok tt else
  match fuel with
  | O => OutOfFuel
  | S fuel' =>
    let* ih := item_header r k in
    if negb (ih_type_id (fst ih) =? type_id mod 65536) then Err Malformed else
    check_type_items fuel' r (k + 1) hi type_id
  end.

Fixpoint check_types_items (r : reader) (ts : list itype) : res err unit :=
  match ts with
  | [] => Ok tt
  | t :: rest =>
    let* e := i32_add (t_start t) (t_num t) in
    let* _ := check_type_items (S (length (r_item_offsets r))) r (as_usize (t_start t)) (as_usize e) (t_type_id t) in
    check_types_items r rest
  end.

Definition reader_check (r : reader) : res err unit :=
  let h := r_hdr r in
  let* es := check_types (h_num_items h) (r_item_types r) 0 None [] in
  if negb (es =? h_num_items h) then Err Malformed else
  let* offset := check_items (S (length (r_item_offsets r))) r 0 0 in
  if negb (offset =? as_usize (h_size_items h)) then Err Malformed else
  let* _ := check_data (S (length (r_data_offsets r))) r 0 0 in
  check_types_items r (r_item_types r).

(* Reader::new, first half: header and tables (everything before `result.check()?`) *)
Definition reader_parse (bs : bytes) : res err reader :=
  let* hc := header_read bs in
  let (h, cur) := hc in
  let* sc := check_size_and_swaplen h in
  let (expected_size, crude) := sc in
  let* ver := (if h_version h =? 3 then Ok V3
               else if h_version h =? 4 then Ok (if crude then V4Crude else V4)
               else Panic site_unreachable) in
  let* r1 := read_words 3 (h_num_item_types h) cur in
  let (tws, cur) := r1 in
  let* r2 := read_words 1 (h_num_items h) cur in
  let (item_offsets, cur) := r2 in
  let* r3 := read_words 1 (h_num_data h) cur in
  let (data_offsets, cur) := r3 in
  let* r4 := (if has_compressed_data ver
              then let* x := read_words 1 (h_num_data h) cur in Ok (Some (fst x), snd x)
              else Ok (None, cur)) in
  let (uds, cur) := r4 in
  let* nwords := rsom (as_usize (h_size_items h)) 1 4 in
  let* r5 := read_words 1 nwords cur in
  let (items_raw, cur) := r5 in
  (* set_seek_base; ensure_filesize(expected_size) *)
  if zlen bs <? expected_size then Err TooShort else
  Ok {| r_hdr := h; r_item_types := item_types_of tws; r_item_offsets := item_offsets;
        r_data_offsets := data_offsets; r_uds := uds; r_items_raw := items_raw;
        r_version := ver; r_data := cur |}.

(* Reader::new *)
Definition reader_new (bs : bytes) : res err reader :=
  let* r := reader_parse bs in
  let* _ := reader_check r in
  Ok r.

(* ---------- accessors ---------- *)
(* an ItemView: besides the words, where they sit in items_raw (word offset, length) *)
Record item_view := { iv_type : Z; iv_id : Z; iv_off : Z; iv_len : Z; iv_data : list Z }.

Definition item (r : reader) (idx : Z) : res err item_view :=
  let* ih := item_header r idx in
  let* off := index (r_item_offsets r) idx site_index_item_offsets in
  let* offu := assert_usize off in
  let* w := rsom offu 1 4 in
  let* s1 := slice_from (r_items_raw r) w site_slice_items_raw in
  let* s2 := slice_from s1 2 site_slice_items_raw in
  let* su := assert_usize (snd ih) in
  let* n := rsom su 1 4 in
  let* s3 := slice_to s2 n site_slice_items_raw in
  Ok {| iv_type := ih_type_id (fst ih); iv_id := ih_id (fst ih); iv_off := w + 2; iv_len := n; iv_data := s3 |}.

Definition num_items (r : reader) : res err Z := assert_usize (h_num_items (r_hdr r)).
Definition num_data (r : reader) : res err Z := assert_usize (h_num_data (r_hdr r)).
Definition num_item_types (r : reader) : res err Z := assert_usize (h_num_item_types (r_hdr r)).

Fixpoint item_type_indices_loop (ts : list itype) (type_id : Z) : res err (Z * Z) :=
  match ts with
  | [] => Ok (0, 0)
  | t :: rest =>
    if t_type_id t mod 65536 =? type_id then
      let* s := assert_usize (t_start t) in
      let* n := assert_usize (t_num t) in
      let* e := usize_add s n in
      Ok (s, e)
    else item_type_indices_loop rest type_id
  end.
Definition item_type_indices (r : reader) (type_id : Z) : res err (Z * Z) :=
  item_type_indices_loop (r_item_types r) type_id.

Definition item_type (r : reader) (idx : Z) : res err Z :=
  let* t := index (r_item_types r) idx site_index_item_types in
  assert_u16 (t_type_id t).

(* MapIterator over a range: f on lo, lo+1, .. hi-1 *)
Fixpoint collect_range {A} (fuel : nat) (f : Z -> res err A) (i hi : Z) : res err (list A) :=
  if hi <=? i then Ok [] else
  match fuel with
  | O => OutOfFuel
  | S fuel' =>
    let* x := f i in
    let* xs := collect_range fuel' f (i + 1) hi in
    Ok (x :: xs)
  end.

Definition items (r : reader) : res err (list item_view) :=
  let* n := num_items r in
  collect_range (S (length (r_item_offsets r))) (item r) 0 n.
Definition item_types (r : reader) : res err (list Z) :=
  let* n := num_item_types r in
  collect_range (S (length (r_item_types r))) (item_type r) 0 n.
Definition item_type_items (r : reader) (type_id : Z) : res err (list item_view) :=
  let* se := item_type_indices r type_id in
  collect_range (S (length (r_item_offsets r))) (item r) (fst se) (snd se).

Fixpoint find_loop (fuel : nat) (r : reader) (i hi : Z) (item_id : Z) : res err (option item_view) :=
  if hi <=? i then Ok None else
  match fuel with
  | O => OutOfFuel
  | S fuel' =>
    let* it := item r i in
    if iv_id it =? item_id then Ok (Some it) else find_loop fuel' r (i + 1) hi item_id
  end.
Definition find_item (r : reader) (type_id item_id : Z) : res err (option item_view) :=
  let* se := item_type_indices r type_id in
  find_loop (S (length (r_item_offsets r))) r (fst se) (snd se) item_id.

Definition data_size_file (r : reader) (idx : Z) : res err Z :=
  let* start := index (r_data_offsets r) idx site_index_data_offsets in
  let* last := usize_sub (zlen (r_data_offsets r)) 1 in
  let* e := (if idx <? last
             then let* x := index (r_data_offsets r) (idx + 1) site_index_data_offsets in Ok (as_usize x)
             else Ok (as_usize (h_size_data (r_hdr r)))) in
  if negb (as_usize start <=? e) then Panic site_assert_start_le_end else
  usize_sub e (as_usize start).

(* CallbackReadData::seek_read + the exactness check of seek_read_exact_owned *)
Definition seek_read_exact (data : bytes) (start len : Z) : res err bytes :=
  let avail := Z.max 0 (zlen data - start) in
  let n := Z.min len avail in
  if negb (n =? len) then Err TooShort else
  if len <=? 0 then Ok [] else
  Ok (firstn (Z.to_nat len) (skipn (Z.to_nat start) data)).

(* zlib's uncompress: capacity of the destination, source -> output or error code *)
Inductive zres := ZOk (out : bytes) | ZErr (code : Z).

(* the (offset, length) inside the data section that read_data hands to the callback *)
Definition read_data_src (r : reader) (idx : Z) : res err (Z * Z) :=
  let* raw_len := data_size_file r idx in
  let* off := index (r_data_offsets r) idx site_index_data_offsets in
  Ok (u32_of off, raw_len).

Definition read_data (uncompress : Z -> bytes -> zres) (r : reader) (idx : Z) : res err bytes :=
  let* src := read_data_src r idx in
  let* raw := seek_read_exact (r_data r) (fst src) (snd src) in
  match r_uds r with
  | Some uds =>
    let* u := index uds idx site_index_uds in
    let data_len := as_usize u in
    match uncompress data_len raw with
    | ZOk out => if zlen out =? data_len then Ok out else Err CompressionWrongSize
    | ZErr code => Err (CompressionError code)
    end
  | None => Ok raw
  end.

(* DataIter: one Result per data block; only a panic ends the whole call *)
Fixpoint data_iter_loop (fuel : nat) (uncompress : Z -> bytes -> zres) (r : reader) (i hi : Z)
  : res err (list (res err bytes)) :=
  if hi <=? i then Ok [] else
  match fuel with
  | O => OutOfFuel
  | S fuel' =>
    match read_data uncompress r i with
    | Panic s => Panic s
    | OutOfFuel => OutOfFuel
    | x => let* xs := data_iter_loop fuel' uncompress r (i + 1) hi in Ok (x :: xs)
    end
  end.
Definition data_iter (uncompress : Z -> bytes -> zres) (r : reader) : res err (list (res err bytes)) :=
  let* n := num_data r in
  data_iter_loop (S (length (r_data_offsets r))) uncompress r 0 n.

(* ---------- the API as one type (for "every call") ---------- *)
Inductive call :=
| CVersion | CNumItems | CNumData | CNumItemTypes
| CItem (i : Z) | CItemType (i : Z) | CItemTypeIndices (type_id : Z)
| CFindItem (type_id id : Z) | CItems | CItemTypes | CItemTypeItems (type_id : Z)
| CReadData (i : Z) | CDataIter.

Inductive value :=
| VVersion (v : version) | VNum (n : Z) | VItem (it : item_view) | VRange (s e : Z)
| VOptItem (o : option item_view) | VItems (l : list item_view) | VTypes (l : list Z)
| VData (d : bytes) | VDatas (l : list (res err bytes)).

Definition is_u16 (z : Z) : bool := (0 <=? z) && (z <? 65536).

(* the arguments a caller may pass: indices below the announced counts, u16 type ids *)
Definition valid_call (r : reader) (c : call) : bool :=
  match c with
  | CItem i => (0 <=? i) && (i <? h_num_items (r_hdr r))
  | CItemType i => (0 <=? i) && (i <? h_num_item_types (r_hdr r))
  | CItemTypeIndices t | CItemTypeItems t => is_u16 t
  | CFindItem t i => is_u16 t && is_u16 i
  | CReadData i => (0 <=? i) && (i <? h_num_data (r_hdr r))
  | _ => true
  end.

Definition run_call (uncompress : Z -> bytes -> zres) (r : reader) (c : call) : res err value :=
  match c with
  | CVersion => Ok (VVersion (r_version r))
  | CNumItems => let* n := num_items r in Ok (VNum n)
  | CNumData => let* n := num_data r in Ok (VNum n)
  | CNumItemTypes => let* n := num_item_types r in Ok (VNum n)
  | CItem i => let* x := item r i in Ok (VItem x)
  | CItemType i => let* x := item_type r i in Ok (VNum x)
  | CItemTypeIndices t => let* x := item_type_indices r t in Ok (VRange (fst x) (snd x))
  | CFindItem t i => let* x := find_item r t i in Ok (VOptItem x)
  | CItems => let* x := items r in Ok (VItems x)
  | CItemTypes => let* x := item_types r in Ok (VTypes x)
  | CItemTypeItems t => let* x := item_type_items r t in Ok (VItems x)
  | CReadData i => let* x := read_data uncompress r i in Ok (VData x)
  | CDataIter => let* x := data_iter uncompress r in Ok (VDatas x)
  end.

(* ================= writer specification (doc/datafile.md) ================= *)
(* An item set, grouped by type: (type_id, [(id, item_data)]) with ascending type ids.
   Data items: byte strings; what is stored for them is `stored` (v3: the data, v4: the
   output of zlib's compress) together with the uncompressed size. *)
Definition ditem := (Z * list Z)%type.            (* id, item_data *)
Definition dgroup := (Z * list ditem)%type.       (* type_id, items of that type *)

Definition le_bytes (w : Z) : bytes :=
  let u := w mod two32 in
  [u mod 256; (u / 256) mod 256; (u / 65536) mod 256; (u / 16777216) mod 256].
Definition enc_words (ws : list Z) : bytes := flat_map le_bytes ws.

(* item: type_id__id, size in bytes, item_data *)
Definition item_words (type_id : Z) (it : ditem) : list Z :=
  i32_of (type_id * 65536 + fst it) :: 4 * zlen (snd it) :: snd it.
Definition group_words (g : dgroup) : list Z := flat_map (item_words (fst g)) (snd g).
Definition item_size_bytes (it : ditem) : Z := 8 + 4 * zlen (snd it).

(* item_types: type_id, start, num with start counting items *)
Fixpoint type_table (gs : list dgroup) (start : Z) : list Z :=
  match gs with
  | [] => []
  | g :: rest => fst g :: start :: zlen (snd g) :: type_table rest (start + zlen (snd g))
  end.
(* offsets of consecutive things of the given sizes *)
Fixpoint offsets_from (sizes : list Z) (start : Z) : list Z :=
  match sizes with
  | [] => []
  | s :: rest => start :: offsets_from rest (start + s)
  end.
Definition sum_z (l : list Z) : Z := fold_right Z.add 0 l.

Definition all_ditems (gs : list dgroup) : list ditem := flat_map snd gs.

Definition serialize_stored (ver : Z) (crude : bool) (gs : list dgroup) (stored : list (bytes * Z)) : bytes :=
  let its := all_ditems gs in
  let item_sizes := map item_size_bytes its in
  let size_items := sum_z item_sizes in
  let blob_sizes := map (fun s => zlen (fst s)) stored in
  let size_data := sum_z blob_sizes in
  let nd := zlen stored in
  let tables := type_table gs 0 ++ offsets_from item_sizes 0 ++ offsets_from blob_sizes 0
                ++ (if 4 <=? ver then map snd stored else []) in
  let items_area := flat_map group_words gs in
  let total := 36 + 4 * zlen tables + size_items + size_data in
  (* size: the whole file without version_header, size and swaplen; swaplen: the same up to the data.
     The crude variant (old reference writer) forgets the data_sizes table. *)
  let size := total - 16 - (if crude then 4 * nd else 0) in
  let swaplen := size - size_data in
  magic_data ++ enc_words ([ver; size; swaplen; zlen gs; zlen its; nd; size_items; size_data]
                            ++ tables ++ items_area)
             ++ flat_map fst stored.

Definition stored_of (compress : bytes -> bytes) (ver : Z) (datas : list bytes) : list (bytes * Z) :=
  map (fun d => (if 4 <=? ver then compress d else d, zlen d)) datas.

Definition serialize (compress : bytes -> bytes) (ver : Z) (crude : bool) (gs : list dgroup) (datas : list bytes) : bytes :=
  serialize_stored ver crude gs (stored_of compress ver datas).

(* grouping a flat item list (type_id, id, data) into maximal runs of equal type *)
Fixpoint group_items (its : list (Z * ditem)) : list dgroup :=
  match its with
  | [] => []
  | (t, it) :: rest =>
    match group_items rest with
    | (t', g) :: gs => if t =? t' then (t, it :: g) :: gs else (t, [it]) :: (t', g) :: gs
    | [] => [(t, [it])]
    end
  end.

(* well-formed input: u16 ids, ascending type ids, i32 words, bytes, the file and each
   (uncompressed) data item below 2 GiB *)
Fixpoint ascending (prev : Z) (l : list Z) : bool :=
  match l with
  | [] => true
  | x :: r => (prev <? x) && ascending x r
  end.
Definition ditem_wf (it : ditem) : bool := is_u16 (fst it) && forallb is_i32 (snd it).
Definition dgroup_wf (g : dgroup) : bool := is_u16 (fst g) && forallb ditem_wf (snd g).
Definition serialized_size (ver : Z) (gs : list dgroup) (stored : list (bytes * Z)) : Z :=
  36 + 12 * zlen gs + 4 * zlen (all_ditems gs) + 4 * zlen stored + (if 4 <=? ver then 4 * zlen stored else 0)
  + sum_z (map item_size_bytes (all_ditems gs)) + sum_z (map (fun s => zlen (fst s)) stored).
Definition wf_input (compress : bytes -> bytes) (ver : Z) (gs : list dgroup) (datas : list bytes) : bool :=
  forallb dgroup_wf gs && ascending (-1) (map fst gs)
  && forallb bytes_ok datas && forallb (fun d => bytes_ok (compress d)) datas
  && forallb (fun d => zlen d <=? i32_max) datas
  && (serialized_size ver gs (stored_of compress ver datas) <=? i32_max).

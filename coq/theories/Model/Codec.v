(* C14 — one generic interpreter for the generated gamenet codecs
   (gamenet/<proto>/src/msg/{system,game,connless}.rs, snap_obj.rs, enums.rs,
   gamenet/common/src/msg.rs, gamenet/snap/src/lib.rs).

   A codec is DATA: the ordered list of member operations that the translator
   (tools/gen_gamenet.py) found in a generated `decode`, the ordered list of
   `assert!`s and writes it found in the matching `encode`, and the id under
   which the enum-level `decode_msg` / `msg_id` dispatch it.  Arrays and nested
   snapshot objects are flattened by the translator (an array of n members is n
   consecutive reads / writes in the Rust source as well).

   Reading and writing go through Model/Packer.v (unpack_step, pack_field,
   pack_int), which C08 ties to packer/src/lib.rs.  Definitions only. *)
From LibTw2 Require Export Base.Res Model.Varint Model.Packer.
Open Scope Z_scope.

(* gamenet/common/src/error.rs *)
Inductive gerr := ControlCharacters | IntOutOfRange | InvalidIntString | UnexpectedEnd | UnknownId.

(* panic sites of the generated code *)
Definition site_uuid_from_slice : Z := 1401.   (* Uuid::from_slice(_p.read_raw(n)?).unwrap(), n <> 16 *)
Definition site_sha256_from_slice : Z := 1402. (* Sha256::from_slice(_p.read_raw(n)?).unwrap(), n <> 32 *)
Definition site_index : Z := 1403.             (* _p.read_raw(1)?[0], [s[0], s[1]] *)
Definition site_encode_assert : Z := 1404.     (* assert!(lo <= self.f && self.f <= hi), assert!(self.f >= lo), assert!(self.f.is_some()) *)
Definition site_sanitize_unwrap : Z := 1405.   (* sanitize(&mut Panic, self.f).unwrap() *)
Definition site_unwrap_none : Z := 1406.       (* self.f.unwrap() *)
Definition site_encode_id : Z := 1407.         (* assert!(i != 0); assert!((iid & (1 << 31)) == 0) *)
Definition site_transmute : Z := 1408.         (* libtw2_common::slice::transmute: align / size asserts *)

(* ---------- values ---------- *)

(* one value per (flattened) member.  i32 fields, enum fields (identified by the
   constant from_i32 accepted), Tick, TuneParam, u8 and u16 are VInt. *)
Inductive value :=
| VInt (v : Z)
| VBool (b : bool)
| VBytes (s : bytes)
| VNone                (* Option::None *)
| VUnit.               (* the pseudo member MFinish *)

(* ---------- member operations ---------- *)

(* enum table, one row per variant in declaration order:
   (constant matched by from_i32, constant returned by to_i32, discriminant of the repr(i32) enum) *)
Definition etbl := list (Z * Z * Z).

(* operations on one i32 (shared by Unpacker::read_int(warn) and IntUnpacker::read_int()) *)
Inductive iop :=
| IInt                        (* _p.read_int(..)? *)
| ITune                       (* TuneParam(_p.read_int(warn)?) *)
| ITick                       (* crate::snap_obj::Tick(_p.read_int(..)?) *)
| IRange (a b : Z)            (* in_range(_p.read_int(..)?, a, b)? *)
| IPositive                   (* positive(..)? *)
| IAtLeast (a : Z)            (* at_least(.., a)? *)
| IBool                       (* to_bool(..)? *)
| IEnum (t : etbl).           (* enums::E::from_i32(..)? *)

Inductive mop :=
| MI (i : iop)
| MStr                        (* _p.read_string()? *)
| MStrStrict                  (* sanitize(warn, _p.read_string()?)? *)
| MIntStr                     (* int_from_string(_p.read_string()?)? *)
| MData                       (* _p.read_data(warn)? *)
| MRest                       (* _p.read_rest()? *)
| MUuid (n : nat)             (* Uuid::from_slice(_p.read_raw(n)?).unwrap() *)
| MSha256 (n : nat)           (* Sha256::from_slice(_p.read_raw(n)?).unwrap() *)
| MU8                         (* _p.read_raw(1)?[0] *)
| MBe16                       (* { let s = _p.read_raw(2)?; u16::from_be_bytes([s[0], s[1]]) } *)
| MAddrs                      (* AddrPackedSliceExt::from_bytes(wrap(warn), _p.read_rest()?) *)
| MClients                    (* ClientsData::from_bytes(_p.read_rest()?) *)
| MOptInt                     (* _p.read_int(warn).ok() *)
| MOptStr                     (* _p.read_string().ok() *)
| MFinish.                    (* the `_p.finish(wrap(warn))` inside a nested Obj::decode_msg(warn, _p)? *)

(* encode side: what is written in the generated `encode` *)
Inductive aop :=
| ARange (a b : Z)            (* assert!(a <= self.f && self.f <= b) *)
| AAtLeast (a : Z)            (* assert!(self.f >= a) *)
| ASanitize                   (* sanitize(&mut Panic, self.f).unwrap() *)
| AIsSome.                    (* assert!(self.f.is_some()) *)

Inductive wop :=
| WInt                        (* _p.write_int(self.f)? *)
| WDot0                       (* _p.write_int(self.f.0)? *)
| WAsI32                      (* _p.write_int(self.f as i32)? *)
| WToI32                      (* _p.write_int(self.f.to_i32())? *)
| WUnwrapInt                  (* _p.write_int(self.f.unwrap())? *)
| WStr                        (* _p.write_string(self.f)? *)
| WUnwrapStr                  (* _p.write_string(self.f.unwrap())? *)
| WIntStr                     (* _p.write_string(&string_from_int(self.f))? *)
| WData                       (* _p.write_data(self.f)? *)
| WRest                       (* _p.write_rest(self.f)? *)
| WRestAsBytes                (* _p.write_rest(self.f.as_bytes())? *)
| WRawAsBytes                 (* _p.write_raw(self.f.as_bytes())? *)
| WRawDot0                    (* _p.write_raw(&self.f.0)? *)
| WU8                         (* _p.write_raw(&[self.f])? *)
| WBe16.                      (* _p.write_raw(&self.f.to_be_bytes())? *)

Inductive eop :=
| EAssert (i : nat) (a : aop)
| EWrite (i : nat) (w : wop).

Inductive ckind := KSystem | KGame | KConnless | KObjMsg.
Inductive msgid := IdOrd (n : Z) | IdUuid (u : bytes) | IdConn (b : bytes).

Record codec := {
  c_kind : ckind;
  c_id_dec : msgid;          (* the constant in the arm of decode_msg / decode_connless *)
  c_id_enc : msgid;          (* the constant in the arm of msg_id / connless_id *)
  c_dec : list mop;          (* decode, in the order of the struct literal *)
  c_enc : list eop           (* encode, in statement order; indices are positions in c_dec *)
}.

(* snapshot objects: decoded from i32 words, re-exposed by transmuting the repr(C) struct *)
Inductive fty := F32 | F8.   (* i32 / repr(i32) enum / Tick : 4 bytes, align 4;  bool : 1 byte, align 1 *)

Record ocodec := {
  o_id_dec : msgid;
  o_id_enc : msgid;
  o_size : option Z;                 (* the arm of obj_size, if there is one *)
  o_dec : list iop;                  (* decode_inner (the super object's members first) *)
  o_asserts : list (nat * aop);      (* encode: self.<super>.encode(); then the assert!s *)
  o_layout : list (nat * fty)        (* struct declaration order: (position in o_dec, field type) *)
}.

(* ---------- small helpers ---------- *)

Definition int_of (f : field) : Z := match f with FInt v => v | _ => 0 end.
Definition payload (f : field) : bytes :=
  match f with FInt _ => [] | FStr s | FData s | FRaw s | FRest s => s end.

Definition has_cc (s : bytes) : bool := existsb (fun b => b <? 32) s.

Definition efrom (r : Z * Z * Z) : Z := fst (fst r).
Definition eto (r : Z * Z * Z) : Z := snd (fst r).
Definition ediscr (r : Z * Z * Z) : Z := snd r.
Definition elookup (t : etbl) (v : Z) : option (Z * Z * Z) := find (fun r => efrom r =? v) t.

(* the check applied to an i32 that was read *)
Definition check_int (i : iop) (v : Z) : res gerr value :=
  match i with
  | IInt | ITune | ITick => Ok (VInt v)
  | IRange a b => if (a <=? v) && (v <=? b) then Ok (VInt v) else Err IntOutOfRange
  | IPositive => if 0 <=? v then Ok (VInt v) else Err IntOutOfRange
  | IAtLeast a => if a <=? v then Ok (VInt v) else Err IntOutOfRange
  | IBool => if (0 <=? v) && (v <=? 1) then Ok (VBool (negb (v =? 0))) else Err IntOutOfRange
  | IEnum t => match elookup t v with Some _ => Ok (VInt v) | None => Err IntOutOfRange end
  end.

(* ---------- i32 <-> decimal string (int_from_string / string_from_int) ---------- *)

Definition is_digit (b : Z) : bool := (48 <=? b) && (b <=? 57).

(* i32::from_str: checked_mul(10) then checked_add / checked_sub of the digit *)
Fixpoint parse_digits (neg : bool) (acc : Z) (s : bytes) : option Z :=
  match s with
  | [] => Some acc
  | d :: s' =>
    if is_digit d then
      let a := if neg then acc * 10 - (d - 48) else acc * 10 + (d - 48) in
      if is_i32 a then parse_digits neg a s' else None
    else None
  end.

Definition parse_int (s : bytes) : option Z :=
  match s with
  | [] => None
  | c :: s' =>
    if c =? 43 then match s' with [] => None | _ => parse_digits false 0 s' end
    else if c =? 45 then match s' with [] => None | _ => parse_digits true 0 s' end
    else parse_digits false 0 s
  end.

Fixpoint digits_of (fuel : nat) (n : Z) : bytes :=
  match fuel with
  | O => []
  | S f => if n <? 10 then [48 + n] else digits_of f (n / 10) ++ [48 + n mod 10]
  end.
(* ten digits are enough for an i32 *)
Definition print_int (v : Z) : bytes :=
  if v <? 0 then 45 :: digits_of 10 (- v) else digits_of 10 v.

(* ---------- decoding a message body ---------- *)

Definition step := (bytes * res gerr value * list pwarn)%type.

Definition step_int (rest : bytes) (k : Z -> res gerr value) : step :=
  match unpack_step rest KInt with
  | (r, Ok f, ws) => (r, k (int_of f), ws)
  | (r, Err _, ws) => (r, Err UnexpectedEnd, ws)
  | (r, Panic s, ws) => (r, Panic s, ws)
  | (r, OutOfFuel, ws) => (r, OutOfFuel, ws)
  end.

Definition step_bytes (rest : bytes) (kd : kind) (k : bytes -> res gerr value) : step :=
  match unpack_step rest kd with
  | (r, Ok f, ws) => (r, k (payload f), ws)
  | (r, Err _, ws) => (r, Err UnexpectedEnd, ws)
  | (r, Panic s, ws) => (r, Panic s, ws)
  | (r, OutOfFuel, ws) => (r, OutOfFuel, ws)
  end.

Definition addr_size : nat := 18.    (* size_of::<AddrPacked>() : [u8; 16] + big-endian u16, packed *)

Definition decode_op (demo : bool) (m : mop) (rest : bytes) : step :=
  match m with
  | MI i => step_int rest (check_int i)
  | MStr => step_bytes rest KStr (fun s => Ok (VBytes s))
  | MStrStrict => step_bytes rest KStr (fun s => if has_cc s then Err ControlCharacters else Ok (VBytes s))
  | MIntStr => step_bytes rest KStr (fun s =>
      match parse_int s with Some v => Ok (VInt v) | None => Err InvalidIntString end)
  | MData => step_bytes rest KData (fun s => Ok (VBytes s))
  | MRest | MClients => step_bytes rest KRest (fun s => Ok (VBytes s))
  | MUuid n => step_bytes rest (KRaw n) (fun s =>
      if (n =? 16)%nat then Ok (VBytes s) else Panic site_uuid_from_slice)
  | MSha256 n => step_bytes rest (KRaw n) (fun s =>
      if (n =? 32)%nat then Ok (VBytes s) else Panic site_sha256_from_slice)
  | MU8 => step_bytes rest (KRaw 1) (fun s =>
      match s with b :: _ => Ok (VInt b) | [] => Panic site_index end)
  | MBe16 => step_bytes rest (KRaw 2) (fun s =>
      match s with hi :: lo :: _ => Ok (VInt (hi * 256 + lo)) | _ => Panic site_index end)
  | MAddrs =>
    match step_bytes rest KRest (fun s => Ok (VBytes s)) with
    | (r, Ok (VBytes s), ws) =>
      let rem := (length s mod addr_size)%nat in
      (r, Ok (VBytes (firstn (length s - rem) s)),
       if (rem =? 0)%nat then ws else ws ++ [ExcessData])
    | other => other
    end
  | MOptInt =>
    match unpack_step rest KInt with
    | (r, Ok f, ws) => (r, Ok (VInt (int_of f)), ws)
    | (r, Err _, ws) => (r, Ok VNone, ws)
    | (r, Panic s, ws) => (r, Panic s, ws)
    | (r, OutOfFuel, ws) => (r, OutOfFuel, ws)
    end
  | MOptStr =>
    match unpack_step rest KStr with
    | (r, Ok f, ws) => (r, Ok (VBytes (payload f)), ws)
    | (r, Err _, ws) => (r, Ok VNone, ws)
    | (r, Panic s, ws) => (r, Panic s, ws)
    | (r, OutOfFuel, ws) => (r, OutOfFuel, ws)
    end
  | MFinish => ([], Ok VUnit, if finish_warns demo rest then [ExcessData] else [])
  end.

(* the fields of the struct literal, evaluated in order; `?` returns at the first error,
   warnings already given stay in the sink *)
Fixpoint decode_ops (demo : bool) (ms : list mop) (rest : bytes) : bytes * res gerr (list value) * list pwarn :=
  match ms with
  | [] => (rest, Ok [], [])
  | m :: ms' =>
    match decode_op demo m rest with
    | (r, Ok v, ws) =>
      match decode_ops demo ms' r with
      | (r', Ok vs, ws') => (r', Ok (v :: vs), ws ++ ws')
      | (r', Err e, ws') => (r', Err e, ws ++ ws')
      | (r', Panic s, ws') => (r', Panic s, ws ++ ws')
      | (r', OutOfFuel, ws') => (r', OutOfFuel, ws ++ ws')
      end
    | (r, Err e, ws) => (r, Err e, ws)
    | (r, Panic s, ws) => (r, Panic s, ws)
    | (r, OutOfFuel, ws) => (r, OutOfFuel, ws)
    end
  end.

(* let result = Ok(S { .. }); _p.finish(wrap(warn)); result *)
Definition decode_body (demo : bool) (ms : list mop) (rest : bytes) : res gerr (list value) * list pwarn :=
  match decode_ops demo ms rest with
  | (r, Ok vs, ws) => (Ok vs, if finish_warns demo r then ws ++ [ExcessData] else ws)
  | (_, other, ws) => (other, ws)
  end.

(* value and warnings, or the error *)
Definition decode_w (c : codec) (demo : bool) (bs : bytes) : res gerr (list value) * list pwarn :=
  decode_body demo (c_dec c) bs.

Definition decode (c : codec) (demo : bool) (bs : bytes) : res gerr (list value * list pwarn) :=
  match decode_w c demo bs with
  | (Ok vs, ws) => Ok (vs, ws)
  | (Err e, _) => Err e
  | (Panic s, _) => Panic s
  | (OutOfFuel, _) => OutOfFuel
  end.

(* ---------- message ids (gamenet/common/src/msg.rs) ---------- *)

Definition ckind_eqb (a b : ckind) : bool :=
  match a, b with
  | KSystem, KSystem | KGame, KGame | KConnless, KConnless | KObjMsg, KObjMsg => true
  | _, _ => false
  end.

Fixpoint bytes_eqb (a b : bytes) : bool :=
  match a, b with
  | [], [] => true
  | x :: a', y :: b' => (x =? y) && bytes_eqb a' b'
  | _, _ => false
  end.

Definition msgid_eqb (a b : msgid) : bool :=
  match a, b with
  | IdOrd x, IdOrd y => x =? y
  | IdUuid x, IdUuid y => bytes_eqb x y
  | IdConn x, IdConn y => bytes_eqb x y
  | _, _ => false
  end.

(* SystemOrGame::decode_id *)
Definition decode_id (rest : bytes) : bytes * res gerr (bool * msgid) * list pwarn :=
  match unpack_step rest KInt with
  | (r, Ok f, ws) =>
    let id := int_of f in
    let sys := negb (Z.land id 1 =? 0) in
    let msg := Z.shiftr id 1 in
    if negb (msg =? 0) then (r, Ok (sys, IdOrd msg), ws)
    else match unpack_step r (KRaw 16) with
         | (r', Ok u, _) => (r', Ok (sys, IdUuid (payload u)), ws)
         | (r', Err _, _) => (r', Err UnexpectedEnd, ws)
         | (r', Panic s, _) => (r', Panic s, ws)
         | (r', OutOfFuel, _) => (r', OutOfFuel, ws)
         end
  | (r, Err _, ws) => (r, Err UnexpectedEnd, ws)
  | (r, Panic s, ws) => (r, Panic s, ws)
  | (r, OutOfFuel, ws) => (r, OutOfFuel, ws)
  end.

(* the `match msg_id { Ordinal(C) => .., Uuid(C) => .., _ => return Err(UnknownId) }`: first arm that fits *)
Definition find_codec (tbl : list codec) (k : ckind) (id : msgid) : option codec :=
  find (fun c => ckind_eqb (c_kind c) k && msgid_eqb (c_id_dec c) id) tbl.

Definition with_ws {A} (ws : list pwarn) (x : res gerr A * list pwarn) : res gerr A * list pwarn :=
  (fst x, ws ++ snd x).

Definition tag_codec (c : codec) (x : res gerr (list value) * list pwarn)
  : res gerr (codec * list value) * list pwarn :=
  match x with
  | (Ok vs, ws) => (Ok (c, vs), ws)
  | (Err e, ws) => (Err e, ws)
  | (Panic s, ws) => (Panic s, ws)
  | (OutOfFuel, ws) => (OutOfFuel, ws)
  end.

(* System::decode / Game::decode *)
Definition decode_sysgame (tbl : list codec) (want_sys : bool) (demo : bool) (bs : bytes)
  : res gerr (codec * list value) * list pwarn :=
  match decode_id bs with
  | (r, Ok (sys, id), ws) =>
    if Bool.eqb sys want_sys then
      match find_codec tbl (if want_sys then KSystem else KGame) id with
      | Some c => with_ws ws (tag_codec c (decode_w c demo r))
      | None => (Err UnknownId, ws)
      end
    else (Err UnknownId, ws)
  | (_, Err e, ws) => (Err e, ws)
  | (_, Panic s, ws) => (Panic s, ws)
  | (_, OutOfFuel, ws) => (OutOfFuel, ws)
  end.

(* Connless::decode *)
Definition decode_connless (tbl : list codec) (demo : bool) (bs : bytes)
  : res gerr (codec * list value) * list pwarn :=
  match unpack_step bs (KRaw 8) with
  | (r, Ok f, _) =>
    match find_codec tbl KConnless (IdConn (payload f)) with
    | Some c => tag_codec c (decode_w c demo r)
    | None => (Err UnknownId, [])
    end
  | (_, Err _, _) => (Err UnexpectedEnd, [])
  | (_, Panic s, _) => (Panic s, [])
  | (_, OutOfFuel, _) => (OutOfFuel, [])
  end.

(* ---------- encoding ---------- *)

Inductive eerr :=
| CapacityErr
| IllTyped.      (* the value list does not have the shape of the Rust struct (excluded by rustc) *)

Definition check_assert (a : aop) (v : value) : res eerr unit :=
  match a, v with
  | ARange lo hi, VInt x => if (lo <=? x) && (x <=? hi) then Ok tt else Panic site_encode_assert
  | AAtLeast lo, VInt x => if lo <=? x then Ok tt else Panic site_encode_assert
  | ASanitize, VBytes s => if has_cc s then Panic site_sanitize_unwrap else Ok tt
  | AIsSome, VNone => Panic site_encode_assert
  | AIsSome, (VInt _ | VBytes _) => Ok tt
  | _, _ => Err IllTyped
  end.

Definition be16 (v : Z) : bytes := [v / 256; v mod 256].

(* the packer field written for member m holding v *)
Definition write_field (m : mop) (w : wop) (v : value) : res eerr field :=
  match w, v with
  | WInt, VInt x => Ok (FInt x)
  | WDot0, VInt x => Ok (FInt x)
  | WAsI32, VBool b => Ok (FInt (if b then 1 else 0))
  | WToI32, VInt x =>
    match m with
    | MI (IEnum t) => match elookup t x with Some r => Ok (FInt (eto r)) | None => Err IllTyped end
    | _ => Err IllTyped
    end
  | WUnwrapInt, VInt x => Ok (FInt x)
  | WUnwrapInt, VNone => Panic site_unwrap_none
  | WStr, VBytes s => Ok (FStr s)
  | WUnwrapStr, VBytes s => Ok (FStr s)
  | WUnwrapStr, VNone => Panic site_unwrap_none
  | WIntStr, VInt x => Ok (FStr (print_int x))
  | WData, VBytes s => Ok (FData s)
  | WRest, VBytes s => Ok (FRest s)
  | WRestAsBytes, VBytes s => Ok (FRest s)
  | WRawAsBytes, VBytes s => Ok (FRaw s)
  | WRawDot0, VBytes s => Ok (FRaw s)
  | WU8, VInt x => Ok (FRaw [x])
  | WBe16, VInt x => Ok (FRaw (be16 x))
  | _, _ => Err IllTyped
  end.

Definition lift_pack (r : target * res perr unit) : target * res eerr unit :=
  match r with
  | (t, Ok u) => (t, Ok u)
  | (t, Err _) => (t, Err CapacityErr)
  | (t, Panic s) => (t, Panic s)
  | (t, OutOfFuel) => (t, OutOfFuel)
  end.

Fixpoint encode_ops (ms : list mop) (vs : list value) (ops : list eop) (t : target) : target * res eerr unit :=
  match ops with
  | [] => (t, Ok tt)
  | EAssert i a :: ops' =>
    match nth_error vs i with
    | None => (t, Err IllTyped)
    | Some v =>
      match check_assert a v with
      | Ok _ => encode_ops ms vs ops' t
      | Err e => (t, Err e)
      | Panic s => (t, Panic s)
      | OutOfFuel => (t, OutOfFuel)
      end
    end
  | EWrite i w :: ops' =>
    match nth_error ms i, nth_error vs i with
    | Some m, Some v =>
      match write_field m w v with
      | Ok f =>
        match lift_pack (pack_field t f) with
        | (t', Ok _) => encode_ops ms vs ops' t'
        | r => r
        end
      | Err e => (t, Err e)
      | Panic s => (t, Panic s)
      | OutOfFuel => (t, OutOfFuel)
      end
    | _, _ => (t, Err IllTyped)
    end
  end.

Definition finish_target (r : target * res eerr unit) : res eerr bytes :=
  match r with
  | (t, Ok _) => Ok (t_data t)
  | (_, Err e) => Err e
  | (_, Panic s) => Panic s
  | (_, OutOfFuel) => OutOfFuel
  end.

Definition empty_target (cap : nat) : target := {| t_data := []; t_cap := cap |}.

(* S::encode(&self, Packer) into a buffer of `cap` bytes *)
Definition encode (c : codec) (vs : list value) (cap : nat) : res eerr bytes :=
  finish_target (encode_ops (c_dec c) vs (c_enc c) (empty_target cap)).

(* SystemOrGame::encode_id *)
Definition encode_id (t : target) (sys : bool) (id : msgid) : target * res eerr unit :=
  let flag := if sys then 1 else 0 in
  match id with
  | IdOrd i =>
    if i =? 0 then (t, Panic site_encode_id) else
    let iid := u32_of i in
    if two31 <=? iid then (t, Panic site_encode_id)
    else lift_pack (pack_int t (i32_of (u32_of (iid * 2) + flag)))
  | IdUuid u =>
    match lift_pack (pack_int t flag) with
    | (t', Ok _) => lift_pack (pack_field t' (FRaw u))
    | r => r
    end
  | IdConn _ => (t, Err IllTyped)
  end.

(* System::encode / Game::encode / Connless::encode *)
Definition encode_msg (c : codec) (vs : list value) (cap : nat) : res eerr bytes :=
  let t0 := empty_target cap in
  let hdr :=
    match c_kind c, c_id_enc c with
    | KSystem, id => encode_id t0 true id
    | KGame, id => encode_id t0 false id
    | KConnless, IdConn b => lift_pack (pack_field t0 (FRaw b))
    | _, _ => (t0, Err IllTyped)
    end in
  match hdr with
  | (t1, Ok _) => finish_target (encode_ops (c_dec c) vs (c_enc c) t1)
  | r => finish_target r
  end.

(* ---------- the canonical bytes of a described value ---------- *)

Definition enc_value (m : mop) (v : value) : bytes :=
  match m, v with
  | MI _, VInt x => write_int_bytes x
  | MI _, VBool b => write_int_bytes (if b then 1 else 0)
  | (MStr | MStrStrict | MOptStr), VBytes s => s ++ [0]
  | MIntStr, VInt x => print_int x ++ [0]
  | MData, VBytes d => write_int_bytes (Z.of_nat (length d)) ++ d
  | (MRest | MClients | MAddrs | MUuid _ | MSha256 _), VBytes s => s
  | MU8, VInt x => [x]
  | MBe16, VInt x => be16 x
  | MOptInt, VInt x => write_int_bytes x
  | _, _ => []
  end.

Fixpoint enc_values (ms : list mop) (vs : list value) : bytes :=
  match ms, vs with
  | m :: ms', v :: vs' => enc_value m v ++ enc_values ms' vs'
  | _, _ => []
  end.

Definition canonical (c : codec) (vs : list value) : bytes := enc_values (c_dec c) vs.

(* the id in front of a message *)
Definition id_bytes (sys : bool) (id : msgid) : bytes :=
  match id with
  | IdOrd i => write_int_bytes (i * 2 + (if sys then 1 else 0))
  | IdUuid u => write_int_bytes (if sys then 1 else 0) ++ u
  | IdConn b => b
  end.

Definition canonical_msg (c : codec) (vs : list value) : bytes :=
  id_bytes (match c_kind c with KSystem => true | _ => false end) (c_id_enc c) ++ canonical c vs.

(* ---------- typing: the values a description admits ---------- *)

Definition typed_int (i : iop) (v : value) : bool :=
  match i, v with
  | IBool, VBool _ => true
  | IBool, _ => false
  | _, VInt x => is_i32 x && match check_int i x with Ok _ => true | _ => false end
  | _, _ => false
  end.

Definition str_ok (s : bytes) : bool := negb (has_nul s) && bytes_ok s.

Definition typed (m : mop) (v : value) : bool :=
  match m, v with
  | MI i, _ => typed_int i v
  | (MStr | MOptStr), VBytes s => str_ok s
  | MStrStrict, VBytes s => negb (has_cc s) && bytes_ok s
  | MIntStr, VInt x => is_i32 x
  | MData, VBytes d => (Z.of_nat (length d) <=? i32_max) && bytes_ok d
  | (MRest | MClients), VBytes s => bytes_ok s
  | MAddrs, VBytes s => bytes_ok s && ((length s mod addr_size) =? 0)%nat
  | MUuid n, VBytes s => bytes_ok s && (length s =? n)%nat
  | MSha256 n, VBytes s => bytes_ok s && (length s =? n)%nat
  | MU8, VInt x => byte_ok x
  | MBe16, VInt x => (0 <=? x) && (x <? 65536)
  | MOptInt, VInt x => is_i32 x
  | MFinish, VUnit => true
  | _, _ => false
  end.

Fixpoint well_typed (ms : list mop) (vs : list value) : bool :=
  match ms, vs with
  | [], [] => true
  | m :: ms', v :: vs' => typed m v && well_typed ms' vs'
  | _, _ => false
  end.

(* ---------- well-formed codecs ---------- *)

(* a member that takes everything that is left may only come last *)
Definition takes_rest (m : mop) : bool :=
  match m with MRest | MClients | MAddrs | MFinish => true | _ => false end.

Fixpoint rest_only_last (ms : list mop) : bool :=
  match ms with
  | [] => true
  | m :: ms' => match ms' with [] => true | _ => negb (takes_rest m) && rest_only_last ms' end
  end.

Definition etbl_ok (t : etbl) : bool :=
  forallb (fun r => (efrom r =? eto r) && (efrom r =? ediscr r) && is_i32 (efrom r)) t.

Definition mop_ok (m : mop) : bool :=
  match m with
  | MI (IEnum t) => etbl_ok t
  | MUuid n => (n =? 16)%nat
  | MSha256 n => (n =? 32)%nat
  | _ => true
  end.

(* the write the generator emits for a member *)
Definition wop_of (m : mop) : option wop :=
  match m with
  | MI (IInt | IRange _ _ | IPositive | IAtLeast _) => Some WInt
  | MI (ITune | ITick) => Some WDot0
  | MI IBool => Some WAsI32
  | MI (IEnum _) => Some WToI32
  | MStr | MStrStrict => Some WStr
  | MIntStr => Some WIntStr
  | MData => Some WData
  | MRest => Some WRest
  | MUuid _ => Some WRawAsBytes
  | MSha256 _ => Some WRawDot0
  | MU8 => Some WU8
  | MBe16 => Some WBe16
  | MAddrs | MClients => Some WRestAsBytes
  | MOptInt => Some WUnwrapInt
  | MOptStr => Some WUnwrapStr
  | MFinish => None
  end.

Definition wop_eqb (a b : wop) : bool :=
  match a, b with
  | WInt, WInt | WDot0, WDot0 | WAsI32, WAsI32 | WToI32, WToI32 | WUnwrapInt, WUnwrapInt
  | WStr, WStr | WUnwrapStr, WUnwrapStr | WIntStr, WIntStr | WData, WData | WRest, WRest
  | WRestAsBytes, WRestAsBytes | WRawAsBytes, WRawAsBytes | WRawDot0, WRawDot0 | WU8, WU8
  | WBe16, WBe16 => true
  | _, _ => false
  end.

(* an assert is admissible on a member when every described value passes it *)
Definition assert_fits (m : mop) (a : aop) : bool :=
  match a, m with
  | ARange lo hi, MI (IRange a b) => (lo <=? a) && (b <=? hi)
  | AAtLeast lo, MI IPositive => lo <=? 0
  | AAtLeast lo, MI (IAtLeast a) => lo <=? a
  | ASanitize, MStrStrict => true
  | AIsSome, (MOptInt | MOptStr) => true
  | _, _ => false
  end.

(* the writes, in order, are exactly one per member (none for MFinish), each the
   generator's form for the member; every assert fits its member *)
Fixpoint writes_from (ms : list mop) (i : nat) : list (nat * wop) :=
  match ms with
  | [] => []
  | m :: ms' => match wop_of m with
                | Some w => (i, w) :: writes_from ms' (S i)
                | None => writes_from ms' (S i)
                end
  end.

Fixpoint writes_of (ops : list eop) : list (nat * wop) :=
  match ops with
  | [] => []
  | EWrite i w :: ops' => (i, w) :: writes_of ops'
  | EAssert _ _ :: ops' => writes_of ops'
  end.

Fixpoint nw_eqb (a b : list (nat * wop)) : bool :=
  match a, b with
  | [], [] => true
  | (i, w) :: a', (j, x) :: b' => (i =? j)%nat && wop_eqb w x && nw_eqb a' b'
  | _, _ => false
  end.

Definition asserts_fit (ms : list mop) (ops : list eop) : bool :=
  forallb (fun o => match o with
                    | EAssert i a => match nth_error ms i with Some m => assert_fits m a | None => false end
                    | EWrite _ _ => true
                    end) ops.

Definition id_ok (k : ckind) (id : msgid) : bool :=
  match k, id with
  | (KSystem | KGame), IdOrd n => (0 <? n) && (n <? 1073741824)
  | (KSystem | KGame), IdUuid u => bytes_ok u && (length u =? 16)%nat
  | KConnless, IdConn b => bytes_ok b && (length b =? 8)%nat
  | KObjMsg, (IdOrd _ | IdUuid _) => true
  | _, _ => false
  end.

Definition wf_codec (c : codec) : bool :=
  forallb mop_ok (c_dec c)
  && rest_only_last (c_dec c)
  && nw_eqb (writes_of (c_enc c)) (writes_from (c_dec c) 0)
  && asserts_fit (c_dec c) (c_enc c)
  && msgid_eqb (c_id_dec c) (c_id_enc c)
  && id_ok (c_kind c) (c_id_dec c).

(* no two arms of one dispatcher carry the same id *)
Fixpoint ids_unique (tbl : list codec) : bool :=
  match tbl with
  | [] => true
  | c :: tbl' =>
    negb (existsb (fun d => ckind_eqb (c_kind d) (c_kind c) && msgid_eqb (c_id_dec d) (c_id_dec c)) tbl')
    && ids_unique tbl'
  end.

(* ---------- snapshot objects ---------- *)

(* IntUnpacker: one word per member *)
Fixpoint decode_words (is : list iop) (ws : list Z) : list Z * res gerr (list value) :=
  match is with
  | [] => (ws, Ok [])
  | i :: is' =>
    match ws with
    | [] => ([], Err UnexpectedEnd)
    | w :: ws' =>
      match check_int i w with
      | Ok v =>
        match decode_words is' ws' with
        | (r, Ok vs) => (r, Ok (v :: vs))
        | other => other
        end
      | Err e => (ws', Err e)
      | Panic s => (ws', Panic s)
      | OutOfFuel => (ws', OutOfFuel)
      end
    end
  end.

(* Obj::decode: decode_inner(p)?; p.finish(warn) — the flag says whether ExcessData was warned *)
Definition decode_obj (o : ocodec) (ws : list Z) : res gerr (list value) * bool :=
  match decode_words (o_dec o) ws with
  | (r, Ok vs) => (Ok vs, match r with [] => false | _ => true end)
  | (_, other) => (other, false)
  end.

Definition find_obj (tbl : list ocodec) (id : msgid) : option ocodec :=
  find (fun o => msgid_eqb (o_id_dec o) id) tbl.

(* SnapObj::decode_obj(warn, type_id, p) *)
Definition decode_snap_obj (tbl : list ocodec) (id : msgid) (ws : list Z)
  : res gerr (ocodec * list value) * bool :=
  match find_obj tbl id with
  | None => (Err UnknownId, false)
  | Some o =>
    match decode_obj o ws with
    | (Ok vs, x) => (Ok (o, vs), x)
    | (Err e, x) => (Err e, x)
    | (Panic s, x) => (Panic s, x)
    | (OutOfFuel, x) => (OutOfFuel, x)
    end
  end.

(* obj_size(type_) *)
Definition obj_size (tbl : list ocodec) (ty : Z) : option Z :=
  match find (fun o => match o_size o with Some _ => msgid_eqb (o_id_dec o) (IdOrd ty) | None => false end) tbl with
  | Some o => o_size o
  | None => None
  end.

(* --- the repr(C) struct as bytes; `pad off` is whatever the byte at offset `off`
   of the struct happens to hold when no field covers it (uninitialised memory) --- *)

Definition le32 (v : Z) : bytes :=
  let u := u32_of v in [u mod 256; (u / 256) mod 256; (u / 65536) mod 256; (u / 16777216) mod 256].

(* a layout byte: (is it padding, content) *)
Definition lbyte := (bool * Z)%type.

Fixpoint pad_bytes (pad : nat -> Z) (off n : nat) : list lbyte :=
  match n with
  | O => []
  | S n' => (true, pad off) :: pad_bytes pad (S off) n'
  end.

Definition align_gap (off al : nat) : nat := ((al - off mod al) mod al)%nat.

(* the bytes of one field: 4-byte fields take the i32 the Rust value has in memory
   (an enum its discriminant), bool its 0/1 byte *)
Definition field_mem (i : iop) (ft : fty) (v : value) : res eerr bytes :=
  match ft, v with
  | F8, VBool b => Ok [if b then 1 else 0]
  | F32, VInt x =>
    match i with
    | IEnum t => match elookup t x with Some r => Ok (le32 (ediscr r)) | None => Err IllTyped end
    | IBool => Err IllTyped
    | _ => Ok (le32 x)
    end
  | _, _ => Err IllTyped
  end.

Fixpoint layout_fields (pad : nat -> Z) (is : list iop) (vs : list value) (fs : list (nat * fty)) (off : nat)
  : res eerr (list lbyte * nat) :=
  match fs with
  | [] => Ok ([], off)
  | (k, ft) :: fs' =>
    match nth_error is k, nth_error vs k with
    | Some i, Some v =>
      match field_mem i ft v with
      | Ok bs =>
        let al := match ft with F32 => 4%nat | F8 => 1%nat end in
        let gap := align_gap off al in
        match layout_fields pad is vs fs' (off + gap + length bs) with
        | Ok (tl, fin) => Ok (pad_bytes pad off gap ++ map (fun b => (false, b)) bs ++ tl, fin)
        | other => other
        end
      | Err e => Err e
      | Panic s => Panic s
      | OutOfFuel => OutOfFuel
      end
    | _, _ => Err IllTyped
    end
  end.

Definition struct_align (fs : list (nat * fty)) : nat :=
  if existsb (fun f => match snd f with F32 => true | F8 => false end) fs then 4%nat else 1%nat.

(* size_of: fields in declaration order, each aligned, the whole rounded up to the alignment *)
Definition struct_bytes (pad : nat -> Z) (o : ocodec) (vs : list value) : res eerr (list lbyte) :=
  match layout_fields pad (o_dec o) vs (o_layout o) 0 with
  | Ok (bs, fin) => Ok (bs ++ pad_bytes pad fin (align_gap fin (struct_align (o_layout o))))
  | Err e => Err e
  | Panic s => Panic s
  | OutOfFuel => OutOfFuel
  end.

Definition word_of (b0 b1 b2 b3 : Z) : Z := i32_of (b0 + 256 * b1 + 65536 * b2 + 16777216 * b3).

Fixpoint words_of (fuel : nat) (bs : list Z) : list Z :=
  match fuel with
  | O => []
  | S f =>
    match bs with
    | b0 :: b1 :: b2 :: b3 :: tl => word_of b0 b1 b2 b3 :: words_of f tl
    | _ => []
    end
  end.

Fixpoint obj_asserts (vs : list value) (as_ : list (nat * aop)) : res eerr unit :=
  match as_ with
  | [] => Ok tt
  | (i, a) :: tl =>
    match nth_error vs i with
    | None => Err IllTyped
    | Some v =>
      match check_assert a v with
      | Ok _ => obj_asserts vs tl
      | other => other
      end
    end
  end.

(* Obj::encode(&self) -> &[i32]: the asserts, then slice::transmute(from_ref(self)) *)
Definition encode_obj_bytes (o : ocodec) (vs : list value) (pad : nat -> Z) : res eerr (list lbyte) :=
  match obj_asserts vs (o_asserts o) with
  | Ok _ =>
    match struct_bytes pad o vs with
    | Ok bs =>
      (* assert!(align_of::<T>() % align_of::<i32>() == 0); assert!(size_of::<T>() % 4 == 0) *)
      if (struct_align (o_layout o) =? 4)%nat && ((length bs mod 4) =? 0)%nat
      then Ok bs else Panic site_transmute
    | other => other
    end
  | Err e => Err e
  | Panic s => Panic s
  | OutOfFuel => OutOfFuel
  end.

Definition encode_obj (o : ocodec) (vs : list value) (pad : nat -> Z) : res eerr (list Z) :=
  match encode_obj_bytes o vs pad with
  | Ok bs => Ok (words_of (length bs) (map snd bs))
  | Err e => Err e
  | Panic s => Panic s
  | OutOfFuel => OutOfFuel
  end.

(* objects whose struct has no bool field *)
Definition no_bool (o : ocodec) : bool :=
  forallb (fun f => match snd f with F32 => true | F8 => false end) (o_layout o).

Fixpoint seq_layout (fs : list (nat * fty)) (i : nat) : bool :=
  match fs with
  | [] => true
  | (k, _) :: fs' => (k =? i)%nat && seq_layout fs' (S i)
  end.

Definition fty_fits (i : iop) (ft : fty) : bool :=
  match i, ft with
  | IBool, F8 => true
  | IBool, F32 => false
  | _, F32 => true
  | _, F8 => false
  end.

Definition oassert_fits (i : iop) (a : aop) : bool := assert_fits (MI i) a.

Definition wf_ocodec (o : ocodec) : bool :=
  forallb (fun i => mop_ok (MI i)) (o_dec o)
  && seq_layout (o_layout o) 0
  && (length (o_layout o) =? length (o_dec o))%nat
  && forallb (fun kf => match nth_error (o_dec o) (fst kf) with Some i => fty_fits i (snd kf) | None => false end)
             (o_layout o)
  && forallb (fun ka => match nth_error (o_dec o) (fst ka) with Some i => oassert_fits i (snd ka) | None => false end)
             (o_asserts o)
  && msgid_eqb (o_id_dec o) (o_id_enc o)
  && match o_id_dec o, o_size o with
     | IdOrd n, Some s => (0 <=? n) && (n <? 65536) && (s =? Z.of_nat (length (o_dec o)))
     | IdUuid u, None => bytes_ok u && (length u =? 16)%nat
     | _, _ => false
     end.

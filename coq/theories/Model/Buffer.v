(* Model of the libtw2-buffer crate (buffer/src/lib.rs, traits.rs,
   impls/{vec,arrayvec,slice,slice_ref,buffer_ref,cap_at}.rs).  Definitions only;
   the proofs live in Proofs/Buffer*.v.

   Memory is one flat list of bytes per root container (the allocation of the
   Vec / ArrayVec, the referenced slice).  A `BufferRef` is a window
   (offset, length) into that memory plus the value of the `initialized_`
   counter it points to.  Every slice-index expression of the source is an
   explicit check with its own panic site; the `unsafe` preconditions that
   do not panic in Rust (set_len within the capacity, raw slices inside the
   allocation, the parent counter staying inside the parent's buffer) are
   *ghost* checks with sites >= 1950: the code has no such test, the theorems
   show the checks can never fire.

   Arithmetic is that of the debug build the harness runs (overflow-checks on):
   `advance` panics when `initialized + num_bytes` overflows usize. *)
From LibTw2 Require Export Base.Res.
Open Scope Z_scope.

(* ---------- panic sites: one per `[a..b]` / assert / checked arithmetic ---------- *)
Definition site_extend_index      : Z := 1901. (* lib.rs extend:            self.buffer[*self.initialized_..] *)
Definition site_uninit_index      : Z := 1902. (* lib.rs uninitialized_mut: self.buffer[*self.initialized_..] *)
Definition site_initialized_index : Z := 1903. (* lib.rs initialized:       self.buffer[..*self.initialized_] *)
Definition site_cap_at_index      : Z := 1904. (* lib.rs cap_at:            self.buffer[..index] *)
Definition site_sliceref_index    : Z := 1905. (* slice_ref.rs drop:        slice[..self.initialized] *)
Definition site_nested_index      : Z := 1906. (* buffer_ref.rs buffer:     self.buffer.buffer[len..] *)
Definition site_remaining_sub     : Z := 1907. (* lib.rs remaining:         self.buffer.len() - *self.initialized_ *)
Definition site_advance_overflow  : Z := 1908. (* lib.rs advance:           *self.initialized_ + num_bytes overflows *)
Definition site_advance_assert    : Z := 1909. (* lib.rs advance:           assert!(.. <= self.buffer.len()) *)
Definition site_cap_at_assert     : Z := 1910. (* lib.rs cap_at:            assert!( *self.initialized_ == 0 ) *)
Definition site_arrayvec_set_len  : Z := 1911. (* arrayvec.rs drop:         set_len's debug_assert!(length <= capacity) *)
(* ghost sites (no test in the code) *)
Definition site_vec_set_len       : Z := 1950. (* vec.rs drop: set_len(len + initialized) must stay <= capacity (std aborts on it when built with debug assertions) *)
Definition site_parent_counter    : Z := 1951. (* buffer_ref.rs drop: parent counter must stay <= parent buffer length *)
Definition site_mem_oob           : Z := 1952. (* a byte access outside the root allocation *)

Definition usize_max : Z := 18446744073709551615.

(* ---------- memory ---------- *)

Fixpoint set_nth (i : nat) (b : Z) (m : bytes) : option bytes :=
  match m with
  | [] => None
  | h :: t => match i with
              | O => Some (b :: t)
              | S i' => match set_nth i' b t with Some t' => Some (h :: t') | None => None end
              end
  end.

(* copy bs to positions at, at+1, ... *)
Fixpoint store_bytes (m : bytes) (at_ : nat) (bs : bytes) : option bytes :=
  match bs with
  | [] => Some m
  | b :: bs' => match set_nth at_ b m with
                | Some m' => store_bytes m' (S at_) bs'
                | None => None
                end
  end.

(* the bytes at positions off .. off+len-1 *)
Definition slice (m : bytes) (off len : nat) : option bytes :=
  if (off + len <=? length m)%nat then Some (firstn len (skipn off m)) else None.

(* ---------- BufferRef ---------- *)

(* buffer = memory[v_off .. v_off + v_cap], *initialized_ = v_init *)
Record view := { v_off : nat; v_cap : nat; v_init : nat }.

Definition room (v : view) : nat := (v_cap v - v_init v)%nat.
Definition with_init (v : view) (i : nat) : view := {| v_off := v_off v; v_cap := v_cap v; v_init := i |}.

(* BufferRef::extend: `for b in bytes { *buf_iter.next()? = b; *initialized_ += 1 }`.
   Result: ok / CapacityError, and how many items were pulled from the iterator. *)
Fixpoint extend_loop (m : bytes) (v : view) (bs : bytes) (pulled : nat) : bytes * view * res unit (bool * nat) :=
  match bs with
  | [] => (m, v, Ok (true, pulled))
  | b :: bs' =>
    if (v_init v <? v_cap v)%nat then
      match set_nth (v_off v + v_init v) b m with
      | Some m' => extend_loop m' (with_init v (S (v_init v))) bs' (S pulled)
      | None => (m, v, Panic site_mem_oob)
      end
    else (m, v, Ok (false, S pulled))
  end.

Definition extend (m : bytes) (v : view) (bs : bytes) : bytes * view * res unit (bool * nat) :=
  if (v_cap v <? v_init v)%nat then (m, v, Panic site_extend_index)
  else extend_loop m v bs 0.

(* BufferRef::advance (unsafe fn, debug-build arithmetic) *)
Definition advance (v : view) (n : Z) : view * res unit unit :=
  let s := Z.of_nat (v_init v) + n in
  if usize_max <? s then (v, Panic site_advance_overflow)
  else if s <=? Z.of_nat (v_cap v) then (with_init v (v_init v + Z.to_nat n), Ok tt)
  else (v, Panic site_advance_assert).

(* BufferRef::remaining *)
Definition remaining (v : view) : res unit nat :=
  if (v_cap v <? v_init v)%nat then Panic site_remaining_sub else Ok (room v).

(* BufferRef::initialized: &self.buffer[..*self.initialized_] *)
Definition initialized (m : bytes) (v : view) : res unit bytes :=
  if (v_cap v <? v_init v)%nat then Panic site_initialized_index
  else match slice m (v_off v) (v_init v) with
       | Some bs => Ok bs
       | None => Panic site_mem_oob
       end.

(* BufferRef::cap_at (private; used by CapAtBuffer::buffer):
     assert!( *self.initialized_ == 0 ); let index = index.min(self.buffer.len()); &mut self.buffer[..index]
   (the `min` is the repair of defect #20; before it the index panicked for n > len) *)
Definition cap_view (v : view) (n : Z) : res unit view :=
  if negb (v_init v =? 0)%nat then Panic site_cap_at_assert
  else
    let index := if n <? Z.of_nat (v_cap v) then Z.to_nat n else v_cap v in
    if (v_cap v <? index)%nat then Panic site_cap_at_index
    else Ok {| v_off := v_off v; v_cap := index; v_init := 0 |}.

(* cap_at(c1).cap_at(c2)...: CapAtBuffer::buffer = inner.to_buffer_ref().cap_at(c), innermost first *)
Fixpoint apply_caps (v : view) (caps : list Z) : res unit view :=
  match caps with
  | [] => Ok v
  | c :: cs => match cap_view v c with
               | Ok v' => apply_caps v' cs
               | r => r
               end
  end.

(* BufferRefBuffer::buffer: the child sees self.buffer.buffer[len..], its own counter starts at 0 *)
Definition child_of (v : view) : res unit view :=
  if (v_cap v <? v_init v)%nat then Panic site_nested_index
  else Ok {| v_off := (v_off v + v_init v)%nat; v_cap := (v_cap v - v_init v)%nat; v_init := 0 |}.

Definition open_child (v : view) (caps : list Z) : res unit view :=
  match child_of v with
  | Ok c => apply_caps c caps
  | r => r
  end.

(* ---------- programs ---------- *)

(* what a closure passed to with_buffer does with its BufferRef `b` (continuation style;
   cutting a program short with PEnd is the early exit / the view dropped unused) *)
Inductive prog :=
| PEnd                                                 (* the closure returns Ok; b is dropped *)
| PInit                                                (* return b.initialized() *)
| PReadInto (fail : bool) (src : bytes)                (* return reader.read_buffer_ref(b); the reader has `src` to give (or fails) *)
| PWrite (q : bool) (bs : bytes) (k : prog)            (* b.write(bs), with `?` when q *)
| PExtend (q : bool) (bs : bytes) (k : prog)           (* b.extend(&mut iter), with `?` when q *)
| PAdvance (n : Z) (k : prog)                          (* unsafe { b.advance(n) } *)
| PPoke (bs : bytes) (k : prog)                        (* copy bs into b.uninitialized_mut() (as far as it fits), no advance *)
| PRemaining (k : prog)                                (* b.remaining() *)
| PNested (q : bool) (caps : list Z) (sub k : prog)    (* with_buffer((&mut b).cap_at(c1)..., |c| sub), with `?` when q *)
| PRead (caps : list Z) (fail : bool) (src : bytes) (k : prog).  (* reader.read_buffer((&mut b).cap_at(c1)...) *)

Inductive ev :=
| EOpen (remaining : nat)            (* c.remaining() at the start of a closure *)
| EWrite (ok : bool)
| EExtend (ok : bool) (pulled : nat)
| ERemaining (n : nat)
| EBytes (bs : bytes)                (* the slice returned by initialized() / read_buffer_ref / read_buffer *)
| EReadErr
| EClose (ok : bool) (parent_remaining : nat).   (* the nested with_buffer returned Ok/Err; b.remaining() afterwards *)

Inductive exit := XOk | XErr | XPanic (site : Z).

(* outcome of one closure + the Drop of its intermediate object.
   s_init: value of the intermediate's counter when it is dropped.
   Ghost fields (not observable, used by the theorems):
   s_acc: the bytes this view accepted, in order; s_views: every state the view and its
   children went through; s_reports: (where the reported slice starts, slice reported, bytes
   accepted so far) at every report *)
Record sout := {
  s_mem : bytes; s_init : nat; s_evs : list ev; s_exit : exit;
  s_acc : bytes; s_views : list view; s_reports : list (nat * bytes * bytes) }.

Definition stop (m : bytes) (v : view) (acc : bytes) (evs : list ev) (x : exit) (reps : list (nat * bytes * bytes)) : sout :=
  {| s_mem := m; s_init := v_init v; s_evs := evs; s_exit := x;
     s_acc := acc; s_views := [v]; s_reports := reps |}.

(* put events / ghost records of what happened before in front of a continuation's outcome *)
Definition before (evs : list ev) (vs : list view) (reps : list (nat * bytes * bytes)) (o : sout) : sout :=
  {| s_mem := s_mem o; s_init := s_init o; s_evs := evs ++ s_evs o; s_exit := s_exit o;
     s_acc := s_acc o; s_views := vs ++ s_views o; s_reports := reps ++ s_reports o |}.

(* traits.rs read_buffer_ref: reader.read(buf.uninitialized_mut())?; buf.advance(read); Ok(buf.initialized())
   for a reader that hands out min(|src|, room) bytes of src *)
Definition read_into (m : bytes) (v : view) (acc : bytes) (fail : bool) (src : bytes) : sout :=
  if (v_cap v <? v_init v)%nat then stop m v acc [] (XPanic site_uninit_index) [] else
  if fail then stop m v acc [EReadErr] XErr [] else
  let got := firstn (room v) src in
  match store_bytes m (v_off v + v_init v) got with
  | None => stop m v acc [] (XPanic site_mem_oob) []
  | Some m' =>
    match advance v (Z.of_nat (length got)) with
    | (v', Ok _) =>
      match initialized m' v' with
      | Ok bs => stop m' v' (acc ++ got) [EBytes bs] XOk [(v_off v, bs, acc ++ got)]
      | Panic s => stop m' v' (acc ++ got) [] (XPanic s) []
      | _ => stop m' v' (acc ++ got) [] XErr []
      end
    | (v', Panic s) => stop m' v' acc [] (XPanic s) []
    | (v', _) => stop m' v' acc [] XErr []
    end
  end.

(* what follows a nested with_buffer whose closure + Drop gave `o`:
   Drop of BufferRefBuffer has added the child's counter to the parent's; a panic keeps
   unwinding; otherwise b.remaining() is looked at, then `?` or the rest of the closure *)
Definition after_child (v : view) (acc : bytes) (q : bool) (pre : list ev) (o : sout)
    (cont : bytes -> view -> bytes -> sout) : sout :=
  let v' := with_init v (v_init v + s_init o) in
  let acc' := acc ++ s_acc o in
  let here := v :: s_views o in
  match s_exit o with
  | XPanic s =>
    before (pre ++ s_evs o) here (s_reports o) (stop (s_mem o) v' acc' [] (XPanic s) [])
  | x =>
    if (v_cap v <? v_init v')%nat
    then before (pre ++ s_evs o) here (s_reports o) (stop (s_mem o) v' acc' [] (XPanic site_parent_counter) [])
    else
      let failed := match x with XErr => true | _ => false end in
      let evs := pre ++ s_evs o ++ [EClose (negb failed) (room v')] in
      if failed && q
      then before evs here (s_reports o) (stop (s_mem o) v' acc' [] XErr [])
      else before evs here (s_reports o) (cont (s_mem o) v' acc')
  end.

Fixpoint run (m : bytes) (v : view) (acc : bytes) (p : prog) : sout :=
  match p with
  | PEnd => stop m v acc [] XOk []
  | PInit =>
    match initialized m v with
    | Ok bs => stop m v acc [EBytes bs] XOk [(v_off v, bs, acc)]
    | Panic s => stop m v acc [] (XPanic s) []
    | _ => stop m v acc [] XErr []
    end
  | PReadInto fail src => read_into m v acc fail src
  | PWrite q bs k =>
    match extend m v bs with
    | (m', v', Ok (ok, _)) =>
      let acc' := acc ++ firstn (room v) bs in
      if negb ok && q then before [EWrite ok] [v] [] (stop m' v' acc' [] XErr [])
      else before [EWrite ok] [v] [] (run m' v' acc' k)
    | (m', v', Panic s) => before [] [v] [] (stop m' v' acc [] (XPanic s) [])
    | (m', v', _) => before [] [v] [] (stop m' v' acc [] XErr [])
    end
  | PExtend q bs k =>
    match extend m v bs with
    | (m', v', Ok (ok, pulled)) =>
      let acc' := acc ++ firstn (room v) bs in
      if negb ok && q then before [EExtend ok pulled] [v] [] (stop m' v' acc' [] XErr [])
      else before [EExtend ok pulled] [v] [] (run m' v' acc' k)
    | (m', v', Panic s) => before [] [v] [] (stop m' v' acc [] (XPanic s) [])
    | (m', v', _) => before [] [v] [] (stop m' v' acc [] XErr [])
    end
  | PAdvance n k =>
    match advance v n with
    | (v', Ok _) =>
      (* the bytes that become initialized are whatever the memory holds there *)
      match slice m (v_off v + v_init v) (Z.to_nat n) with
      | Some exposed => before [] [v] [] (run m v' (acc ++ exposed) k)
      | None => stop m v acc [] (XPanic site_mem_oob) []
      end
    | (v', Panic s) => stop m v' acc [] (XPanic s) []
    | (v', _) => stop m v' acc [] XErr []
    end
  | PPoke bs k =>
    if (v_cap v <? v_init v)%nat then stop m v acc [] (XPanic site_uninit_index) [] else
    match store_bytes m (v_off v + v_init v) (firstn (room v) bs) with
    | Some m' => before [] [v] [] (run m' v acc k)
    | None => stop m v acc [] (XPanic site_mem_oob) []
    end
  | PRemaining k =>
    match remaining v with
    | Ok r => before [ERemaining r] [v] [] (run m v acc k)
    | Panic s => stop m v acc [] (XPanic s) []
    | _ => stop m v acc [] XErr []
    end
  | PNested q caps sub k =>
    match open_child v caps with
    | Ok c => after_child v acc q [EOpen (room c)] (run m c [] sub) (fun m' v' acc' => run m' v' acc' k)
    | Panic s => stop m v acc [] (XPanic s) []      (* the intermediates are dropped with counter 0 *)
    | _ => stop m v acc [] XErr []
    end
  | PRead caps fail src k =>
    match open_child v caps with
    | Ok c => after_child v acc false [] (read_into m c [] fail src) (fun m' v' acc' => run m' v' acc' k)
    | Panic s => stop m v acc [] (XPanic s) []
    | _ => stop m v acc [] XErr []
    end
  end.

(* ---------- backing stores ---------- *)

Inductive store :=
| SVec (data spare : bytes)        (* &mut Vec<u8>: len = |data|, capacity = |data| + |spare|; spare = what the spare capacity holds *)
| SArrayVec (data spare : bytes)   (* &mut ArrayVec<[u8; N]> *)
| SSlice (mem : bytes)             (* &mut [u8] *)
| SSliceRef (mem : bytes)          (* &mut &mut [u8] *)
| SCapAt (n : Z) (s : store).      (* s.cap_at(n) *)

Inductive owner := OVec (len : nat) | OArrayVec (len : nat) | OSlice | OSliceRef.

(* to_to_buffer_ref + to_buffer_ref: memory, who is updated on Drop, the BufferRef *)
Fixpoint open_store (s : store) : bytes * owner * res unit view :=
  match s with
  | SVec d sp => (d ++ sp, OVec (length d), Ok {| v_off := length d; v_cap := length sp; v_init := 0 |})
  | SArrayVec d sp => (d ++ sp, OArrayVec (length d), Ok {| v_off := length d; v_cap := length sp; v_init := 0 |})
  | SSlice mem => (mem, OSlice, Ok {| v_off := 0; v_cap := length mem; v_init := 0 |})
  | SSliceRef mem => (mem, OSliceRef, Ok {| v_off := 0; v_cap := length mem; v_init := 0 |})
  | SCapAt n s' =>
    match open_store s' with
    | (m, o, Ok v) => (m, o, cap_view v n)
    | r => r
    end
  end.

(* Drop of the intermediate: the container's contents afterwards and the memory behind them *)
Definition release (o : owner) (m : bytes) (init : nat) : res unit (bytes * bytes) :=
  match o with
  | OVec len =>
    if (length m <? len + init)%nat then Panic site_vec_set_len
    else Ok (firstn (len + init) m, skipn (len + init) m)
  | OArrayVec len =>
    if (length m <? len + init)%nat then Panic site_arrayvec_set_len
    else Ok (firstn (len + init) m, skipn (len + init) m)
  | OSlice => Ok (m, [])
  | OSliceRef =>
    if (length m <? init)%nat then Panic site_sliceref_index
    else Ok (firstn init m, skipn init m)
  end.

Record result := {
  r_evs : list ev; r_exit : exit;
  r_data : bytes;      (* the container afterwards: vec[..], *slice_ref, the whole slice *)
  r_rest : bytes;      (* the memory behind it, up to the capacity *)
  r_init : nat; r_acc : bytes; r_views : list view; r_reports : list (nat * bytes * bytes) }.

Definition finish (o : owner) (out : sout) : result :=
  match release o (s_mem out) (s_init out) with
  | Ok (d, r) =>
    {| r_evs := s_evs out; r_exit := s_exit out; r_data := d; r_rest := r;
       r_init := s_init out; r_acc := s_acc out; r_views := s_views out; r_reports := s_reports out |}
  | Panic s =>
    {| r_evs := s_evs out; r_exit := XPanic s; r_data := s_mem out; r_rest := [];
       r_init := s_init out; r_acc := s_acc out; r_views := s_views out; r_reports := s_reports out |}
  | _ =>
    {| r_evs := s_evs out; r_exit := XErr; r_data := s_mem out; r_rest := [];
       r_init := s_init out; r_acc := s_acc out; r_views := s_views out; r_reports := s_reports out |}
  end.

(* with_buffer(store, |b| prog) *)
Definition run_store (s : store) (p : prog) : result :=
  match open_store s with
  | (m, o, Ok v) => finish o (before [EOpen (room v)] [] [] (run m v [] p))
  | (m, o, Panic site) =>
    finish o (stop m {| v_off := 0; v_cap := 0; v_init := 0 |} [] [] (XPanic site) [])
  | (m, o, _) => finish o (stop m {| v_off := 0; v_cap := 0; v_init := 0 |} [] [] XErr [])
  end.

(* ---------- well-formed inputs (boolean, for the theorems' hypotheses) ---------- *)

Definition is_usize (n : Z) : bool := (0 <=? n) && (n <=? usize_max).

Fixpoint prog_wf (p : prog) : bool :=
  match p with
  | PEnd | PInit => true
  | PReadInto _ src => bytes_ok src
  | PWrite _ bs k | PExtend _ bs k | PPoke bs k => bytes_ok bs && prog_wf k
  | PAdvance n k => is_usize n && prog_wf k
  | PRemaining k => prog_wf k
  | PNested _ caps sub k => forallb is_usize caps && prog_wf sub && prog_wf k
  | PRead caps _ src k => forallb is_usize caps && bytes_ok src && prog_wf k
  end.

Fixpoint store_wf (s : store) : bool :=
  match s with
  | SVec d sp | SArrayVec d sp => bytes_ok d && bytes_ok sp
  | SSlice m | SSliceRef m => bytes_ok m
  | SCapAt n s' => is_usize n && store_wf s'
  end.

(* Model of packer/src/lib.rs: read_int, write_int (faithful to the loops and to
   Rust's i32/u32 bit semantics) and an independent transcription of doc/int.md.
   Definitions only; proofs live in Proofs/VarintProofs.v. *)
From LibTw2 Require Export Base.Res.
Open Scope Z_scope.

Inductive pwarn := OverlongIntEncoding | NonZeroIntPadding | ExcessData.

Definition site_arrayvec_push : Z := 801.   (* ArrayVec::<[u8;5]>::push on a full vector *)
Definition site_write_string_nul : Z := 802. (* assert!(string.iter().all(|&b| b != 0)) *)

Definition two32 : Z := 4294967296.
Definition two31 : Z := 2147483648.
Definition u32_of (z : Z) : Z := z mod two32.                 (* `as u32` / bit pattern of an i32 *)
Definition i32_of (u : Z) : Z := if u <? two31 then u else u - two32.  (* bit pattern -> i32 *)
Definition all_ones32 : Z := 4294967295.

(* ---------- read_int ---------- *)

(* state of the `for i in 0..4` loop: (src, result bit pattern, len, warnings, remaining input) *)
Record rstate := { r_src : Z; r_acc : Z; r_len : Z; r_ws : list pwarn; r_rest : bytes }.

Fixpoint read_loop (k : nat) (i : Z) (st : rstate) : res unit rstate :=
  match k with
  | O => Ok st
  | S k' =>
    if Z.land (r_src st) 128 =? 0 then Ok st            (* break *)
    else match r_rest st with
         | [] => Err tt                                  (* unwrap_or_return!(iter.next(), Err(UnexpectedEnd)) *)
         | b :: rest =>
           let ws := if (i =? 3) && negb (Z.land b 240 =? 0)
                     then r_ws st ++ [NonZeroIntPadding] else r_ws st in
           (* ((src & 0x7f) as i32) << (6 + 7*i): bits shifted out of 32 are dropped *)
           let piece := u32_of (Z.shiftl (Z.land b 127) (6 + 7 * i)) in
           read_loop k' (i + 1)
             {| r_src := b; r_acc := Z.lor (r_acc st) piece; r_len := r_len st + 1;
                r_ws := ws; r_rest := rest |}
         end
  end.

Definition read_int (bs : bytes) : res unit (Z * list pwarn * bytes) :=
  match bs with
  | [] => Err tt
  | b0 :: rest =>
    let sign := Z.land (Z.shiftr b0 6) 1 in
    let st0 := {| r_src := b0; r_acc := Z.land b0 63; r_len := 1; r_ws := []; r_rest := rest |} in
    match read_loop 4 0 st0 with
    | Ok st =>
      let ws := if (1 <? r_len st) && (r_src st =? 0)
                then r_ws st ++ [OverlongIntEncoding] else r_ws st in
      (* result ^= -sign *)
      let pat := Z.lxor (r_acc st) (if sign =? 1 then all_ones32 else 0) in
      Ok (i32_of pat, ws, r_rest st)
    | Err e => Err e
    | Panic s => Panic s
    | OutOfFuel => OutOfFuel
    end
  end.

(* ---------- write_int ---------- *)

Definition to_bit (b : bool) (bit : Z) : Z := if b then Z.shiftl 1 bit else 0.

(* `while int != 0` with the ArrayVec capacity of 5 as fuel: `room` pushes are left *)
Fixpoint write_loop (room : nat) (p : Z) : res unit bytes :=
  if p =? 0 then Ok []
  else match room with
       | O => Panic site_arrayvec_push
       | S room' =>
         let next := Z.land p 127 in
         let p' := Z.shiftr p 7 in
         match write_loop room' p' with
         | Ok tl => Ok (Z.lor (to_bit (negb (p' =? 0)) 7) next :: tl)
         | r => r
         end
       end.

Definition write_int (v : Z) : res unit bytes :=
  let sign := v <? 0 in
  let p := Z.lxor (u32_of v) (if sign then all_ones32 else 0) in   (* (int ^ -sign) as u32 *)
  let next := Z.land p 63 in
  let p1 := Z.shiftr p 6 in
  match write_loop 4 p1 with
  | Ok tl => Ok (Z.lor (Z.lor (to_bit (negb (p1 =? 0)) 7) (to_bit sign 6)) next :: tl)
  | r => r
  end.

(* total wrapper used where the argument is known to be an i32 (theorem write_int_total) *)
Definition write_int_bytes (v : Z) : bytes :=
  match write_int v with Ok bs => bs | _ => [] end.

(* ---------- doc/int.md, transcribed independently ---------- *)
(* first byte: E S 6 bits; next bytes: E 7 bits; fifth byte: 4 padding bits, 4 bits.
   The bits fields are combined little-endian; the sign flag flips every bit. *)

Definition doc_ext (b : Z) : bool := 128 <=? b.
Definition doc_sign (b0 : Z) : bool := 64 <=? b0 mod 128.

(* magnitude bits contributed by bytes 2..5 (index i = 1..4), stopping at the first
   byte without the extend flag *)
Fixpoint doc_tail (i : nat) (prev_ext : bool) (bs : bytes) : option Z :=
  if negb prev_ext then Some 0 else
  match i, bs with
  | _, [] => None
  | O, b :: _ => Some ((b mod 16) * 2 ^ 27)                         (* last_byte: PPPP utsr *)
  | S i', b :: rest =>
    match doc_tail i' (doc_ext b) rest with
    | Some m => Some ((b mod 128) * 2 ^ (27 - 7 * Z.of_nat i) + m)
    | None => None
    end
  end.

Definition doc_value (bs : bytes) : option Z :=
  match bs with
  | [] => None
  | b0 :: rest =>
    match doc_tail 3 (doc_ext b0) rest with
    | Some m => let mag := b0 mod 64 + m in
                Some (if doc_sign b0 then - mag - 1 else mag)
    | None => None
    end
  end.

(* zero padding: if a fifth byte is consumed, its four upper bits are clear *)
Definition padding_zero (bs : bytes) : bool :=
  match bs with
  | b0 :: b1 :: b2 :: b3 :: b4 :: _ =>
    negb (doc_ext b0 && doc_ext b1 && doc_ext b2 && doc_ext b3) || (b4 <? 16)
  | _ => true
  end.

(* Two 0.6 endpoints and a network that carries BYTES (property C01 at the byte level).
   Same labelled transition system as Model/Link6.v, except that what sits in the two bags
   is what PacketBuilder::send really hands to the socket: every datagram an endpoint emits
   is written by the packet writer model (Packet::write into the 1400-byte builder buffer,
   Model/Packet6.v with the Huffman coder of Model/PacketInst.v); a datagram that arrives is
   parsed by the receiver with the packet reader model and the token hint of the receiver's
   state, and only then handed to the connection (feed_bytes6). The ghost annotations of a
   datagram in flight (the sender's history lengths when it was emitted) travel with the bytes.
   Definitions only; executable (vm_compute), not extracted. *)
From LibTw2 Require Export Model.Link6 Model.Packet6 Model.PacketInst.
From LibTw2 Require Export Proofs.ConnBytes6 Proofs.ConnFeedBytes6.
Open Scope Z_scope.

(* PacketBuilder::send: Packet::write into the builder's 1400 bytes; the connection layer
   treats a failure of the writer as unreachable!("too short buffer provided") *)
Definition wire6 (d : dgram) : res unit bytes :=
  match encode6 d with
  | None => Panic site_builder_capacity          (* TokenMsg is not a 0.6 message *)
  | Some p =>
    match write6_tw p 1400 with
    | Ok bs => Ok bs
    | Err _ => Panic site_builder_capacity
    | Panic s => Panic s
    | OutOfFuel => OutOfFuel
    end
  end.

(* bytes in flight, with the sender's ghost counters at the time they were emitted *)
Record bflight := { bf_bytes : bytes; bf_n : Z (* |submitted| *); bf_c : Z (* |delivered| *) }.

Fixpoint wire_all (n dc : Z) (ds : list dgram) : res unit (list bflight) :=
  match ds with
  | [] => Ok []
  | d :: r =>
    match wire6 d with
    | Ok bs =>
      match wire_all n dc r with
      | Ok fl => Ok ({| bf_bytes := bs; bf_n := n; bf_c := dc |} :: fl)
      | Err e => Err e | Panic s => Panic s | OutOfFuel => OutOfFuel
      end
    | Err e => Err e | Panic s => Panic s | OutOfFuel => OutOfFuel
    end
  end.

Record link_bytes := { kb_a : lside; kb_b : lside; kb_ab : list bflight; kb_ba : list bflight; kb_now : Z }.
Definition getb (w : link_bytes) (s : side) : lside := match s with SA => kb_a w | SB => kb_b w end.
Definition bagb (w : link_bytes) (s : side) : list bflight := match s with SA => kb_ab w | SB => kb_ba w end.

Definition link_bytes_new (ra rb : list token) : link_bytes :=
  {| kb_a := lside_new ra; kb_b := lside_new rb; kb_ab := []; kb_ba := []; kb_now := 0 |}.

(* what the application submitted with this call, if it was a send *)
Definition sent_of (o : op) : option (bytes * bool) :=
  match o with OpSend d v => Some (d, v) | _ => None end.

(* the ghost bookkeeping of one call with outcome `out` (as Link6.side_step) *)
Definition side_after (x : lside) (sent : option (bytes * bool)) (out : outcome) : lside :=
  {| l_conn := out_conn out; l_rand := e_rand (out_env out);
     l_sub := match sent, out_res out with Some (d, true), ROk => l_sub x ++ [d] | _, _ => l_sub x end;
     l_del := l_del x ++ vital_payloads (out_events out);
     l_nvs := match sent, out_res out with Some (d, false), ROk => d :: l_nvs x | _, _ => l_nvs x end;
     l_nvr := l_nvr x ++ nonvital_payloads (out_events out);
     l_ready := l_ready x + ready_events (out_events out);
     l_answered := l_answered x || existsb is_connect_accept (out_sent out) |}.

(* one call at one side: bookkeeping, and every datagram it emits goes through the writer *)
Definition bside_finish (x : lside) (sent : option (bytes * bool)) (r : res unit outcome)
  : res unit (lside * list bflight) :=
  match r with
  | Ok out =>
    match wire_all (zlen (l_sub x)) (zlen (l_del x)) (out_sent out) with
    | Ok fl => Ok (side_after x sent out, fl)
    | Err e => Err e | Panic s => Panic s | OutOfFuel => OutOfFuel
    end
  | Err e => Err e
  | Panic s => Panic s
  | OutOfFuel => OutOfFuel
  end.

Definition set_sideb (w : link_bytes) (s : side) (x : lside) (new_flights : list bflight) : link_bytes :=
  match s with
  | SA => {| kb_a := x; kb_b := kb_b w; kb_ab := kb_ab w ++ new_flights; kb_ba := kb_ba w; kb_now := kb_now w |}
  | SB => {| kb_a := kb_a w; kb_b := x; kb_ab := kb_ab w; kb_ba := kb_ba w ++ new_flights; kb_now := kb_now w |}
  end.

Definition link_bytes_step (w : link_bytes) (l : llabel) : res unit link_bytes :=
  match l with
  | LApp s o =>
    let x := getb w s in
    match bside_finish x (sent_of o) (step (l_conn x) {| e_now := kb_now w; e_rand := l_rand x |} o) with
    | Ok (x', fl) => Ok (set_sideb w s x' fl)
    | Err e => Err e | Panic p => Panic p | OutOfFuel => OutOfFuel
    end
  | LTime dt => Ok {| kb_a := kb_a w; kb_b := kb_b w; kb_ab := kb_ab w; kb_ba := kb_ba w; kb_now := kb_now w + dt |}
  | LDeliver from k =>
    match nth_error (bagb w from) k with
    | Some bf =>
      (* the receiver gets BYTES: packet reader (with the receiver's token hint), then feed *)
      let x := getb w (other from) in
      match bside_finish x None
              (feed_bytes6 (l_conn x) {| e_now := kb_now w; e_rand := l_rand x |} (bf_bytes bf)) with
      | Ok (x', fl) => Ok (set_sideb w (other from) x' fl)
      | Err e => Err e | Panic p => Panic p | OutOfFuel => OutOfFuel
      end
    | None => Ok w
    end
  | LDrop from k =>
    Ok (match from with
        | SA => {| kb_a := kb_a w; kb_b := kb_b w; kb_ab := remove_nth k (kb_ab w); kb_ba := kb_ba w; kb_now := kb_now w |}
        | SB => {| kb_a := kb_a w; kb_b := kb_b w; kb_ab := kb_ab w; kb_ba := remove_nth k (kb_ba w); kb_now := kb_now w |}
        end)
  end.

Fixpoint link_bytes_run (w : link_bytes) (ls : list llabel) : res unit link_bytes :=
  match ls with
  | [] => Ok w
  | l :: r => match link_bytes_step w l with
              | Ok w' => link_bytes_run w' r
              | e => e
              end
  end.

(* ---------- the assumptions of C01 read off the bytes ---------- *)

(* the chunks the receiver's reader and chunk iterator find in a datagram in flight *)
Definition bflight_chunks (bf : bflight) (rcv : lside) : list chunk :=
  match snd (read6_tw (bf_bytes bf) (hint6 (l_conn rcv)) 1400) with
  | Ok (p, _) => dgram_chunks (abstract6 p)
  | _ => []
  end.

(* (F) of Link6.fresh, for bytes *)
Definition fresh_bytes (bf : bflight) (rcv : lside) : Prop :=
  zlen (l_sub rcv) - bf_c bf < 1024 /\
  forall c s r, In c (bflight_chunks bf rcv) -> ch_vital c = Some (s, r) ->
    zlen (l_del rcv) - idx_of (bf_n bf) s < 768.

(* what the application hands over is made of bytes *)
Definition bytes_op (o : op) : Prop :=
  match o with
  | OpSend d _ | OpSendConnless d | OpDisconnect d => bytes_ok d = true
  | _ => True
  end.
Definition bytes_label (l : llabel) : Prop := match l with LApp _ o => bytes_op o | _ => True end.
Definition tokens_bytes (rnd : list token) : Prop := Forall (fun t => bytes_ok t = true) rnd.

(* Two 0.7 endpoints, the datagrams in flight between them, and the network as an adversary:
   labelled transition system for property C01 (0.7). Mirror of Model/Link6.v over
   Model/Conn7.v; all names carry a 7 so that both files can be imported together. Ghost
   histories (what was submitted, what was delivered) are part of the state.
   Definitions only; not extracted. *)
From LibTw2 Require Export Model.Conn7 Model.LinkGhost.
Open Scope Z_scope.

Record lside7 := {
  l7_conn : conn7;
  l7_rand : list token;
  l7_sub : list bytes;      (* vital payloads accepted by send, oldest first *)
  l7_del : list bytes;      (* vital payloads handed to the application *)
  l7_nvs : list bytes;      (* non-vital payloads accepted by send *)
  l7_nvr : list bytes;      (* non-vital payloads handed to the application *)
  l7_ready : Z;             (* number of Ready events *)
  l7_answered : bool;       (* has emitted an Accept *)
}.

Inductive side7 := SA7 | SB7.
Definition other7 (s : side7) : side7 := match s with SA7 => SB7 | SB7 => SA7 end.

Record link7 := { k7_a : lside7; k7_b : lside7; k7_ab : list flight; k7_ba : list flight; k7_now : Z }.
Definition get7 (w : link7) (s : side7) : lside7 := match s with SA7 => k7_a w | SB7 => k7_b w end.
(* datagrams sent by s, on their way to the other side *)
Definition bag7 (w : link7) (s : side7) : list flight := match s with SA7 => k7_ab w | SB7 => k7_ba w end.

Definition lside7_new (rnd : list token) : lside7 :=
  {| l7_conn := conn7_new; l7_rand := rnd; l7_sub := []; l7_del := []; l7_nvs := []; l7_nvr := [];
     l7_ready := 0; l7_answered := false |}.
Definition link7_new (ra rb : list token) : link7 :=
  {| k7_a := lside7_new ra; k7_b := lside7_new rb; k7_ab := []; k7_ba := []; k7_now := 0 |}.

Inductive llabel7 :=
| L7App (s : side7) (o : op7)        (* an application call at side s (never Op7Feed*, Op7Reset) *)
| L7Time (dt : Z)
| L7Deliver (from : side7) (k : nat) (* datagram k sent by `from` reaches the other side; it stays in
                                        the bag, so duplication and reordering are free choices of k *)
| L7Drop (from : side7) (k : nat).

(* "the accepting side has answered": it has emitted an Accept datagram *)
Definition is_accept (d : dgram) : bool :=
  match d with DControl _ _ Accept => true | _ => false end.

(* one call at one side; the datagrams it emits get the ghost counters from before the call *)
Definition side_step7 (now : Z) (x : lside7) (o : op7) : res unit (lside7 * list flight) :=
  match step7 (l7_conn x) {| e_now := now; e_rand := l7_rand x |} o with
  | Ok out =>
    let fl := map ((fun n dc d => {| f_d := d; f_n := n; f_c := dc |}) (zlen (l7_sub x)) (zlen (l7_del x))) (out7_sent out) in
    let sub' := match o, out7_res out with Op7Send d true, R7Ok => l7_sub x ++ [d] | _, _ => l7_sub x end in
    let nvs' := match o, out7_res out with Op7Send d false, R7Ok => d :: l7_nvs x | _, _ => l7_nvs x end in
    Ok ({| l7_conn := out7_conn out; l7_rand := e_rand (out7_env out);
           l7_sub := sub'; l7_del := l7_del x ++ vital_payloads (out7_events out);
           l7_nvs := nvs'; l7_nvr := l7_nvr x ++ nonvital_payloads (out7_events out);
           l7_ready := l7_ready x + ready_events (out7_events out);
           l7_answered := l7_answered x || existsb is_accept (out7_sent out) |}, fl)
  | Err e => Err e
  | Panic s => Panic s
  | OutOfFuel => OutOfFuel
  end.

Definition set_side7 (w : link7) (s : side7) (x : lside7) (new_flights : list flight) : link7 :=
  match s with
  | SA7 => {| k7_a := x; k7_b := k7_b w; k7_ab := k7_ab w ++ new_flights; k7_ba := k7_ba w; k7_now := k7_now w |}
  | SB7 => {| k7_a := k7_a w; k7_b := x; k7_ab := k7_ab w; k7_ba := k7_ba w ++ new_flights; k7_now := k7_now w |}
  end.

Fixpoint remove_nth7 {A} (k : nat) (l : list A) : list A :=
  match k, l with
  | _, [] => []
  | O, _ :: r => r
  | S k', x :: r => x :: remove_nth7 k' r
  end.

Definition link_step7 (w : link7) (l : llabel7) : res unit link7 :=
  match l with
  | L7App s o =>
    match side_step7 (k7_now w) (get7 w s) o with
    | Ok (x, fl) => Ok (set_side7 w s x fl)
    | Err e => Err e | Panic p => Panic p | OutOfFuel => OutOfFuel
    end
  | L7Time dt => Ok {| k7_a := k7_a w; k7_b := k7_b w; k7_ab := k7_ab w; k7_ba := k7_ba w; k7_now := k7_now w + dt |}
  | L7Deliver from k =>
    match nth_error (bag7 w from) k with
    | Some f =>
      match side_step7 (k7_now w) (get7 w (other7 from)) (Op7Feed (f_d f)) with
      | Ok (x, fl) => Ok (set_side7 w (other7 from) x fl)
      | Err e => Err e | Panic p => Panic p | OutOfFuel => OutOfFuel
      end
    | None => Ok w
    end
  | L7Drop from k =>
    Ok (match from with
        | SA7 => {| k7_a := k7_a w; k7_b := k7_b w; k7_ab := remove_nth7 k (k7_ab w); k7_ba := k7_ba w; k7_now := k7_now w |}
        | SB7 => {| k7_a := k7_a w; k7_b := k7_b w; k7_ab := k7_ab w; k7_ba := remove_nth7 k (k7_ba w); k7_now := k7_now w |}
        end)
  end.

Fixpoint link_run7 (w : link7) (ls : list llabel7) : res unit link7 :=
  match ls with
  | [] => Ok w
  | l :: r => match link_step7 w l with
              | Ok w' => link_run7 w' r
              | e => e
              end
  end.

(* ---------- the assumptions of C01, as a predicate on a label in a state ---------- *)
Definition app_op7 (o : op7) : Prop :=
  match o with Op7Feed _ | Op7FeedGarbage | Op7Reset => False | _ => True end.

(* (W) fewer than 512 vital chunks unacknowledged *)
Definition window_ok7 (x : lside7) (o : op7) : Prop :=
  match o, c7_state (l7_conn x) with
  | Op7Send _ true, Online7 on => zlen (o_queue on) < 511
  | _, _ => True
  end.

(* (F) the datagram is not delayed across the 10-bit sequence space: its acknowledgement is less
   than 1024 chunks behind what the receiver has submitted, and none of its vital chunks is 768 or
   more chunks older than what the receiver has already been given (a packet holds at most 255
   chunks, so no chunk of it can alias the 1024-number space while it is being processed) *)
Definition fresh7 (f : flight) (rcv : lside7) : Prop :=
  zlen (l7_sub rcv) - f_c f < 1024 /\
  forall c s r, In c (dgram_chunks (f_d f)) -> ch_vital c = Some (s, r) ->
    zlen (l7_del rcv) - idx_of (f_n f) s < 768.

(* Model of the bundled C++ original, huffman/reference/sys/src/teeworlds/huffman.cpp:
   CHuffman::Compress. Proof-only (not extracted: the harness runs the real C++ through
   the crate libtw2-huffman-reference).

   m_aNodes[Sym].m_Bits / m_NumBits are taken from a table t through get_symbol, i.e. the
   theorem about it (Props/C07.v, C07_ref_compress) says: IF the reference holds the same
   code words as t, its output is byte-identical. That its code words are the same is
   checked by the harness (every single-symbol input, and all the others, byte for byte).

   `unsigned` is Z modulo 2^32. The software pipelining of the C++ loop (`Symbol = *pSrc++`
   between LOADSYMBOL and WRITE, the `if(InputSize)` special case) only reorders reads of the
   input; the sequence of LOADSYMBOL / WRITE pairs is: one per input byte, then one for EOF.

   Results: Ok bytes = the buffer contents up to the returned size; Err tt = returns -1;
   Panic site_ref_ub = undefined behaviour (a write past pDstEnd: only for OutputSize = 0). *)
From LibTw2 Require Export Base.Res Model.Huffman.
Open Scope Z_scope.

Definition site_ref_ub : Z := 720.
Definition two32 : Z := 4294967296.

(* HUFFMAN_MACRO_WRITE: while(Bitcount >= 8) { *pDst++ = Bits & 0xff; if(pDst == pDstEnd) return -1;
                                               Bits >>= 8; Bitcount -= 8; }
   room = pDstEnd - pDst *)
Fixpoint ref_write (fuel : nat) (bits bc : Z) (room : nat) : res unit (bytes * Z * Z * nat) :=
  if bc <? 8 then Ok ([], bits, bc, room) else
  match fuel with
  | O => OutOfFuel
  | S f =>
    match room with
    | O => Panic site_ref_ub
    | S r =>
      if (r =? 0)%nat then Err tt else
      match ref_write f (Z.shiftr bits 8) (bc - 8) r with
      | Ok (bs, b', c', r') => Ok (Z.land bits 255 :: bs, b', c', r')
      | e => e
      end
    end
  end.

(* HUFFMAN_MACRO_LOADSYMBOL(Sym); HUFFMAN_MACRO_WRITE() for each symbol *)
Fixpoint ref_syms (t : table) (syms : list Z) (bits bc : Z) (room : nat) : res unit bytes :=
  match syms with
  | [] =>
    (* *pDst++ = Bits;  (truncated to unsigned char, no bounds check) *)
    match room with
    | O => Panic site_ref_ub
    | S _ => Ok [Z.land bits 255]
    end
  | s :: rest =>
    match get_symbol t s with
    | Ok (mbits, n) =>
      (* Bits |= m_Bits << Bitcount; Bitcount += m_NumBits; *)
      let bits1 := Z.lor bits (Z.shiftl mbits bc mod two32) in
      let bc1 := (bc + n) mod two32 in
      match ref_write 8 bits1 bc1 room with
      | Ok (em, bits2, bc2, room2) =>
        match ref_syms t rest bits2 bc2 room2 with
        | Ok out => Ok (em ++ out)
        | e => e
        end
      | Err e => Err e | Panic p => Panic p | OutOfFuel => OutOfFuel
      end
    | Err e => Err e | Panic p => Panic p | OutOfFuel => OutOfFuel
    end
  end.

Definition ref_compress (t : table) (input : bytes) (cap : nat) : res unit bytes :=
  ref_syms t (input ++ [EOF]) 0 0 cap.

(* Model of the bundled C++ original, huffman/reference/sys/src/teeworlds/huffman.cpp:
   CHuffman::Compress and CHuffman::Decompress (with the decode LUT of CHuffman::Init).
   Extracted and run against the real C++ (crate libtw2-huffman-reference) on the harness'
   rcomp / rdec cases.

   m_aNodes[Sym].m_Bits / m_NumBits are taken from a table t through get_symbol, i.e. the
   theorem about it (Props/C07.v, C07_ref_compress) says: IF the reference holds the same
   code words as t, its output is byte-identical. That its code words are the same is
   checked by the harness (every single-symbol input, and all the others, byte for byte).

   `unsigned` is Z modulo 2^32. The software pipelining of the C++ loop (`Symbol = *pSrc++`
   between LOADSYMBOL and WRITE, the `if(InputSize)` special case) only reorders reads of the
   input; the sequence of LOADSYMBOL / WRITE pairs is: one per input byte, then one for EOF.

   Results: Ok bytes = the buffer contents up to the returned size; Err tt = returns -1;
   Panic site_ref_ub = undefined behaviour (a write past pDstEnd: only for OutputSize = 0). *)
From LibTw2 Require Export Base.Res Model.Huffman.
Open Scope Z_scope.

Definition site_ref_ub : Z := 720.
Definition two32 : Z := 4294967296.

(* HUFFMAN_MACRO_WRITE: while(Bitcount >= 8) { *pDst++ = Bits & 0xff; if(pDst == pDstEnd) return -1;
                                               Bits >>= 8; Bitcount -= 8; }
   room = pDstEnd - pDst *)
Fixpoint ref_write (fuel : nat) (bits bc : Z) (room : nat) : res unit (bytes * Z * Z * nat) :=
  if bc <? 8 then Ok ([], bits, bc, room) else
  match fuel with
  | O => OutOfFuel
  | S f =>
    match room with
    | O => Panic site_ref_ub
    | S r =>
      if (r =? 0)%nat then Err tt else
      match ref_write f (Z.shiftr bits 8) (bc - 8) r with
      | Ok (bs, b', c', r') => Ok (Z.land bits 255 :: bs, b', c', r')
      | e => e
      end
    end
  end.

(* HUFFMAN_MACRO_LOADSYMBOL(Sym); HUFFMAN_MACRO_WRITE() for each symbol *)
Fixpoint ref_syms (t : table) (syms : list Z) (bits bc : Z) (room : nat) : res unit bytes :=
  match syms with
  | [] =>
    (* *pDst++ = Bits;  (truncated to unsigned char, no bounds check) *)
    match room with
    | O => Panic site_ref_ub
    | S _ => Ok [Z.land bits 255]
    end
  | s :: rest =>
    match get_symbol t s with
    | Ok (mbits, n) =>
      (* Bits |= m_Bits << Bitcount; Bitcount += m_NumBits; *)
      let bits1 := Z.lor bits (Z.shiftl mbits bc mod two32) in
      let bc1 := (bc + n) mod two32 in
      match ref_write 8 bits1 bc1 room with
      | Ok (em, bits2, bc2, room2) =>
        match ref_syms t rest bits2 bc2 room2 with
        | Ok out => Ok (em ++ out)
        | e => e
        end
      | Err e => Err e | Panic p => Panic p | OutOfFuel => OutOfFuel
      end
    | Err e => Err e | Panic p => Panic p | OutOfFuel => OutOfFuel
    end
  end.

Definition ref_compress (t : table) (input : bytes) (cap : nat) : res unit bytes :=
  ref_syms t (input ++ [EOF]) 0 0 cap.

(* ---------- CHuffman::Decompress ----------
   A node pointer is the node's index; `pNode->m_NumBits != 0` holds exactly for the 257 symbol
   nodes (ConstructTree gives them 0xFFFFFFFF, Setbits_r their depth, inner nodes keep 0), i.e.
   for idx < NUM_SYMBOLS; m_NumBits of a symbol node is its code length, m_Symbol its index;
   m_aLeafs of an inner node are its two children. *)

(* Init: m_apDecodeLut[i] - from the start node follow the low bits of i until a symbol node
   is reached or HUFFMAN_LUTBITS = 10 steps are done *)
Fixpoint lut_walk (t : table) (k : nat) (idx bits : Z) : res unit Z :=
  match k with
  | O => Ok idx
  | S k' =>
    match lookup t idx with
    | None => Panic site_ref_ub
    | Some nd =>
      let c := if Z.testbit bits 0 then snd nd else fst nd in     (* m_aLeafs[Bits&1]; Bits >>= 1 *)
      if c <? NUM_SYMBOLS then Ok c else lut_walk t k' c (Z.shiftr bits 1)
    end
  end.
Definition lut (t : table) (i : Z) : res unit Z := lut_walk t 10 ROOT_IDX i.

(* {B} while(Bitcount < 24 && pSrc != pSrcEnd) { Bits |= ( *pSrc++) << Bitcount; Bitcount += 8; } *)
Fixpoint ref_fill (bits bc : Z) (src : bytes) : Z * Z * bytes :=
  match src with
  | [] => (bits, bc, src)
  | b :: r =>
    if bc <? 24 then ref_fill (Z.lor bits (Z.shiftl b bc mod two32)) ((bc + 8) mod two32) r
    else (bits, bc, src)
  end.

(* walk the tree bit by bit: pNode = &m_aNodes[pNode->m_aLeafs[Bits&1]]; Bitcount--; Bits >>= 1;
   if(pNode->m_NumBits) break; if(Bitcount == 0) return -1; *)
Fixpoint ref_slow (fuel : nat) (t : table) (idx bits bc : Z) : res unit (Z * Z * Z) :=
  match fuel with
  | O => OutOfFuel
  | S f =>
    match lookup t idx with
    | None => Panic site_ref_ub
    | Some nd =>
      let c := if Z.testbit bits 0 then snd nd else fst nd in
      let bc' := (bc - 1) mod two32 in
      let bits' := Z.shiftr bits 1 in
      if c <? NUM_SYMBOLS then Ok (c, bits', bc')
      else if bc' =? 0 then Err tt
      else ref_slow f t c bits' bc'
    end
  end.

(* one iteration of while(1) decodes one symbol; out is newest first, room = pDstEnd - pDst *)
Fixpoint ref_dec_loop (fuel : nat) (t : table) (bits bc : Z) (src : bytes) (out : bytes) (room : nat)
  : res unit bytes :=
  match fuel with
  | O => OutOfFuel
  | S f =>
    (* {A} *)
    let pn0 := if 10 <=? bc then Some (lut t (Z.land bits 1023)) else None in
    (* {B} *)
    let '(bits1, bc1, src1) := ref_fill bits bc src in
    (* {C} *)
    let pn := match pn0 with Some p => p | None => lut t (Z.land bits1 1023) end in
    match pn with
    | Ok idx =>
      (* {D} *)
      let step :=
        if idx <? NUM_SYMBOLS then
          match get_symbol t idx with
          | Ok (_, n) => Ok (idx, Z.shiftr bits1 n, (bc1 - n) mod two32)
          | Err e => Err e | Panic p => Panic p | OutOfFuel => OutOfFuel
          end
        else ref_slow 600 t idx (Z.shiftr bits1 10) ((bc1 - 10) mod two32) in
      match step with
      | Ok (s, bits2, bc2) =>
        if s =? EOF then Ok (rev out)                       (* pNode == pEof *)
        else match room with
             | O => Err tt                                  (* pDst == pDstEnd *)
             | S r => ref_dec_loop f t bits2 bc2 src1 (s :: out) r    (* *pDst++ = pNode->m_Symbol *)
             end
      | Err e => Err e | Panic p => Panic p | OutOfFuel => OutOfFuel
      end
    | Err e => Err e | Panic p => Panic p | OutOfFuel => OutOfFuel
    end
  end.

Definition ref_decompress (fuel : nat) (t : table) (input : bytes) (cap : nat) : res unit bytes :=
  ref_dec_loop fuel t 0 0 input [] cap.

(* every leaf sits at the depth its stored num_bits says, on every path (the table is a tree
   whose leaves know their depth); decidable *)
Fixpoint depths_ok (t : table) (d : nat) (idx depth : Z) : bool :=
  if idx <? NUM_SYMBOLS then
    match lookup t idx with
    | Some nd => snd (to_symbol_repr nd) =? depth
    | None => false
    end
  else
    match d with
    | O => false
    | S d' =>
      match lookup t idx with
      | Some nd => depths_ok t d' (fst nd) (depth + 1) && depths_ok t d' (snd nd) (depth + 1)
      | None => false
      end
    end.
Definition tree_table (t : table) : bool := depths_ok t 24 ROOT_IDX 0.

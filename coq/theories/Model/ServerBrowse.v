(* Model of serverbrowse/src/protocol.rs: parse_response (dispatch over the
   thirteen response kinds), parse_server_info for every info version,
   PartialServerInfo::merge / get_info / take_info, ServerInfo::sort_clients,
   and what they use from common (truncated_arraystring), core (str::from_utf8,
   str::parse::<i32>, RangeFrom<u32>::next) and packer (read_string = split_nul,
   read_int = Varint.read_int).  Definitions only; proofs are in
   Proofs/ServerBrowse*.v.  `Err tt` is the `None` of the Rust code. *)
From LibTw2 Require Export Base.Res Model.Varint Model.Packer Gen.ServerBrowseConsts.
Open Scope Z_scope.

(* The response headers, TOKEN_7, IPV4_MAPPING, the MAX_CLIENTS constants, PACKETFLAG_CONNLESS, the
   ArrayString capacities CAP_x_y and the max_clients table MAXC_v come from Gen/ServerBrowseConsts.v, which
   tools/gen_serverbrowse.py regenerates from serverbrowse/src/protocol.rs on every run. *)

(* ---------- panic sites ---------- *)
Definition site_slice : Z := 1801.       (* &data[a..b] / data[i] out of range *)
Definition site_transmute : Z := 1802.   (* assert! in common::slice::transmute / relative_size_of_mult *)
Definition site_push_str : Z := 1803.    (* ArrayString::push_str: string longer than the capacity *)
Definition site_assert_u32 : Z := 1804.  (* map_size.assert_u32() *)
Definition site_shl_packet : Z := 1805.  (* received |= 1 << packet_no  (u64 << i32, debug overflow check) *)
Definition site_shl_offset : Z := 1806.  (* received |= 1 << j          (u64 << u32, debug overflow check) *)
Definition site_range_next : Z := 1807.  (* `for j in offset..`: RangeFrom<u32>::next computes j + 1 *)
Definition site_assert_i32 : Z := 1808.  (* clients.len().assert_i32() in get_info *)

Definition u32_max : Z := 4294967295.
Definition u64_ones : Z := 18446744073709551615.   (* !0u64 *)

(* ---------- data ---------- *)

Inductive siv := V5 | V6 | V6Ddper | V664 | V6Ex | V7.     (* ServerInfoVersion, in derive(Ord) order *)

Definition siv_eqb (a b : siv) : bool :=
  match a, b with
  | V5, V5 | V6, V6 | V6Ddper, V6Ddper | V664, V664 | V6Ex, V6Ex | V7, V7 => true
  | _, _ => false
  end.

Inductive rsiv := RNormal (v : siv) | RV6ExMore.            (* ReceivedServerInfoVersion *)
Definition rsiv_version (rv : rsiv) : siv := match rv with RNormal v => v | RV6ExMore => V6Ex end.

Definition max_clients_of (v : siv) : option Z :=
  match v with
  | V5 => MAXC_V5 | V6 => MAXC_V6 | V6Ddper => MAXC_V6Ddper | V664 => MAXC_V664 | V6Ex => MAXC_V6Ex | V7 => MAXC_V7
  end.
Definition has_hostname (v : siv) : bool := match v with V7 => true | _ => false end.
Definition has_progression (v : siv) : bool := match v with V5 => true | _ => false end.
Definition has_skill_level (v : siv) : bool := match v with V7 => true | _ => false end.
Definition has_offset (v : siv) : bool := match v with V664 => true | _ => false end.
Definition has_extended_player_info (v : siv) : bool := match v with V5 => false | _ => true end.
Definition has_extended_map_info (v : siv) : bool := match v with V6Ex => true | _ => false end.
Definition has_extra_info (v : siv) : bool := match v with V6Ex => true | _ => false end.
Definition has_full_client_flags (v : siv) : bool := match v with V7 => true | _ => false end.
Definition is_multipart (v : siv) : bool := match v with V664 | V6Ex => true | _ => false end.

Record client := { c_name : bytes; c_clan : bytes; c_country : Z; c_score : Z; c_flags : Z }.

Record sinfo := {
  i_version : siv; i_token : Z;
  i_ver : bytes; i_name : bytes; i_hostname : option bytes; i_map : bytes;
  i_map_crc : option Z; i_map_size : option Z;
  i_game_type : bytes; i_flags : Z; i_progression : option Z; i_skill_level : option Z;
  i_num_players : Z; i_max_players : Z; i_num_clients : Z; i_max_clients : Z;
  i_clients : list client }.

Definition default_info : sinfo :=
  {| i_version := V5; i_token := 0; i_ver := []; i_name := []; i_hostname := None; i_map := [];
     i_map_crc := None; i_map_size := None; i_game_type := []; i_flags := 0;
     i_progression := None; i_skill_level := None;
     i_num_players := 0; i_max_players := 0; i_num_clients := 0; i_max_clients := 0; i_clients := [] |}.

Definition set_clients (i : sinfo) (cs : list client) : sinfo :=
  {| i_version := i_version i; i_token := i_token i; i_ver := i_ver i; i_name := i_name i;
     i_hostname := i_hostname i; i_map := i_map i; i_map_crc := i_map_crc i; i_map_size := i_map_size i;
     i_game_type := i_game_type i; i_flags := i_flags i; i_progression := i_progression i;
     i_skill_level := i_skill_level i; i_num_players := i_num_players i; i_max_players := i_max_players i;
     i_num_clients := i_num_clients i; i_max_clients := i_max_clients i; i_clients := cs |}.

(* PartialServerInfo *)
Record psi := { p_info : sinfo; p_received : Z }.

(* ---------- core::str::from_utf8 (the accepted set: Unicode table 3-7) ---------- *)

Definition is_cont (b : Z) : bool := (128 <=? b) && (b <=? 191).
Definition in_range (lo hi b : Z) : bool := (lo <=? b) && (b <=? hi).

Fixpoint utf8_valid (bs : bytes) : bool :=
  match bs with
  | [] => true
  | b :: r =>
    if b <? 128 then utf8_valid r
    else if in_range 194 223 b then
      match r with c1 :: r1 => is_cont c1 && utf8_valid r1 | _ => false end
    else if in_range 224 239 b then
      match r with
      | c1 :: c2 :: r2 =>
        (if b =? 224 then in_range 160 191 c1
         else if b =? 237 then in_range 128 159 c1
         else is_cont c1) && is_cont c2 && utf8_valid r2
      | _ => false
      end
    else if in_range 240 244 b then
      match r with
      | c1 :: c2 :: c3 :: r3 =>
        (if b =? 240 then in_range 144 191 c1
         else if b =? 244 then in_range 128 143 c1
         else is_cont c1) && is_cont c2 && is_cont c3 && utf8_valid r3
      | _ => false
      end
    else false
  end.

(* ---------- <i32 as FromStr>::from_str (radix 10) ---------- *)

Definition is_digit (b : Z) : bool := (48 <=? b) && (b <=? 57).

(* result = result.checked_mul(10)?; result = result.checked_add / checked_sub (digit)? *)
Fixpoint parse_digits (positive : bool) (acc : Z) (ds : bytes) : option Z :=
  match ds with
  | [] => Some acc
  | d :: r =>
    if is_digit d then
      let m := acc * 10 in
      if negb (is_i32 m) then None else
      let a := if positive then m + (d - 48) else m - (d - 48) in
      if negb (is_i32 a) then None else parse_digits positive a r
    else None
  end.

Definition parse_i32 (s : bytes) : option Z :=
  match s with
  | [] => None                                           (* Empty *)
  | c :: r =>
    if (c =? 43) || (c =? 45) then
      match r with
      | [] => None                                       (* "+" / "-": InvalidDigit *)
      | _ => parse_digits (c =? 43) 0 r
      end
    else parse_digits true 0 s
  end.

(* ---------- common::str::truncated_arraystring ---------- *)

(* str::is_char_boundary *)
Definition is_char_boundary (s : bytes) (n : nat) : bool :=
  match n with
  | O => true
  | _ => match nth_error s n with
         | None => (n =? length s)%nat
         | Some b => (b <? 128) || (192 <=? b)           (* (b as i8) >= -0x40 *)
         end
  end.

(* for n in (0..cap + 1).rev() { if s.is_char_boundary(n) { s = &s[..n]; break; } } *)
Fixpoint trunc_search (n : nat) (s : bytes) : bytes :=
  if is_char_boundary s n then firstn n s
  else match n with O => s | S n' => trunc_search n' s end.

Definition truncated_arraystring (cap : nat) (s : bytes) : res unit bytes :=
  let s' := if (cap <? length s)%nat then trunc_search cap s else s in
  if (cap <? length s')%nat then Panic site_push_str else Ok s'.

(* ---------- the readers handed to parse_server_info ---------- *)

Inductive int_reader := IntV5 | IntV7.

(* info_read_str: read_string, then str::from_utf8 *)
Definition read_str (rest : bytes) : option (bytes * bytes) :=
  match split_nul rest with
  | Some (s, r) => if utf8_valid s then Some (s, r) else None
  | None => None
  end.

(* info_read_int_v5 / info_read_int_v7 *)
Definition read_int_with (ri : int_reader) (rest : bytes) : res unit (Z * bytes) :=
  match ri with
  | IntV5 =>
    match read_str rest with
    | Some (s, r) => match parse_i32 s with Some v => Ok (v, r) | None => Err tt end
    | None => Err tt
    end
  | IntV7 =>
    match read_int rest with
    | Ok (v, _, r) => Ok (v, r)
    | Err _ => Err tt
    | Panic s => Panic s
    | OutOfFuel => OutOfFuel
    end
  end.

(* the str! macro: truncated_arraystring(unwrap_or_return!(read_str(unpacker), fail(..))) *)
Definition str_field (cap : nat) (rest : bytes) : res unit (bytes * bytes) :=
  match read_str rest with
  | Some (s, r) => let* t := truncated_arraystring cap s in Ok (t, r)
  | None => Err tt
  end.

Definition skip_extra (version : siv) (rest : bytes) : res unit bytes :=
  if has_extra_info version then let* (_, r) := str_field 0 rest in Ok r else Ok rest.

(* 1u64 << n with the debug-build overflow check *)
Definition shl1_u64 (site : Z) (n : Z) : res unit Z :=
  if (0 <=? n) && (n <? 64) then Ok (Z.shiftl 1 n) else Panic site.

(* ---------- parse_server_info ---------- *)

(* the `else` branch of `if !received_version.is_normal()`: everything up to the offset *)
Definition parse_header (version : siv) (ri : int_reader) (token : Z) (r : bytes)
  : res unit (sinfo * Z * bytes) :=
  let* (ver, r) := str_field CAP_info_version r in
  let* (name, r) := str_field CAP_info_name r in
  let* (hostname, r) :=
    if has_hostname version then let* (h, r) := str_field CAP_info_hostname r in Ok (Some h, r) else Ok (None, r) in
  let* (map, r) := str_field CAP_info_map r in
  let* (crc, size, r) :=
    if has_extended_map_info version then
      let* (crc, r) := read_int_with ri r in
      let* (size, r) := read_int_with ri r in
      if size <? 0 then Err tt else
      if u32_max <? size then Panic site_assert_u32 else
      Ok (Some (u32_of crc), Some size, r)
    else Ok (None, None, r) in
  let* (game_type, r) := str_field CAP_info_game_type r in
  let* (flags, r) := read_int_with ri r in
  let* (progression, r) :=
    if has_progression version then let* (p, r) := read_int_with ri r in Ok (Some p, r) else Ok (None, r) in
  let* (skill, r) :=
    if has_skill_level version then let* (p, r) := read_int_with ri r in Ok (Some p, r) else Ok (None, r) in
  let* (num_players, r) := read_int_with ri r in
  let* (max_players, r) := read_int_with ri r in
  let* (num_clients, max_clients, r) :=
    if has_extended_player_info version then
      let* (nc, r) := read_int_with ri r in
      let* (mc, r) := read_int_with ri r in Ok (nc, mc, r)
    else Ok (num_players, max_players, r) in
  let* (raw_offset, r) :=
    if has_offset version then read_int_with ri r else Ok (0, r) in
  if (num_clients <? 0) || (max_clients <? num_clients) || (max_clients <? 0)
     || (match max_clients_of version with Some m => m <? max_clients | None => false end)
     || (num_players <? 0) || (num_clients <? num_players)
     || (max_players <? 0) || (max_clients <? max_players)
  then Err tt                                                 (* count sanity check *)
  else if raw_offset <? 0 then Err tt                         (* raw_offset.try_u32() *)
  else
    Ok ({| i_version := version; i_token := token; i_ver := ver; i_name := name; i_hostname := hostname;
           i_map := map; i_map_crc := crc; i_map_size := size; i_game_type := game_type; i_flags := flags;
           i_progression := progression; i_skill_level := skill;
           i_num_players := num_players; i_max_players := max_players;
           i_num_clients := num_clients; i_max_clients := max_clients; i_clients := [] |},
        raw_offset, r).

(* `for j in offset.. { ... }`: the clients read from `rest` and the bits or-ed into `received`.
   Every iteration consumes at least the NUL of the name, so length rest + 1 is enough fuel. *)
Fixpoint clients_loop (fuel : nat) (version : siv) (ri : int_reader) (j : Z) (rest : bytes)
  : res unit (list client * Z) :=
  match fuel with
  | O => OutOfFuel
  | S fuel' =>
    if u32_max <=? j then Panic site_range_next else
    match read_str rest with
    | None => Ok ([], 0)                                       (* break *)
    | Some (n, r) =>
      let* name := truncated_arraystring CAP_client_name n in
      let* (clan, country, r) :=
        if has_extended_player_info version then
          let* (clan, r) := str_field CAP_client_clan r in
          let* (country, r) := read_int_with ri r in Ok (clan, country, r)
        else Ok ([], -1, r) in
      let* (score, r) := read_int_with ri r in
      let* (flags, r) :=
        if has_extended_player_info version then
          if has_full_client_flags version then read_int_with ri r
          else let* (is_player, r) := read_int_with ri r in
               Ok (if is_player =? 0 then 1 else 0, r)          (* CLIENTINFO_FLAG_SPECTATOR *)
        else Ok (0, r) in
      let* r := skip_extra version r in
      let c := {| c_name := name; c_clan := clan; c_country := country; c_score := score; c_flags := flags |} in
      if siv_eqb version V664 then
        if MAX_CLIENTS_6_64 <=? j then clients_loop fuel' version ri (j + 1) r   (* continue: the client is dropped *)
        else
          let* bit := shl1_u64 site_shl_offset j in
          let* (cs, rv) := clients_loop fuel' version ri (j + 1) r in
          Ok (c :: cs, Z.lor bit rv)
      else
        let* (cs, rv) := clients_loop fuel' version ri (j + 1) r in
        Ok (c :: cs, rv)
    end
  end.

Definition parse_server_info (ri : int_reader) (rv : rsiv) (input : bytes) : res unit psi :=
  let version := rsiv_version rv in
  let* (token, r) := read_int_with ri input in
  let* (info, packet_no, offset, r) :=
    match rv with
    | RV6ExMore =>
      let* (packet_no, r) := read_int_with ri r in
      if (packet_no <? 1) || (64 <=? packet_no) then Err tt  (* packet_no sanity check *)
      else Ok ({| i_version := version; i_token := token; i_ver := []; i_name := []; i_hostname := None;
                  i_map := []; i_map_crc := None; i_map_size := None; i_game_type := []; i_flags := 0;
                  i_progression := None; i_skill_level := None; i_num_players := 0; i_max_players := 0;
                  i_num_clients := 0; i_max_clients := 0; i_clients := [] |}, packet_no, 0, r)
    | RNormal _ =>
      let* (info, offset, r) := parse_header version ri token r in Ok (info, 0, offset, r)
    end in
  let* r := skip_extra version r in
  let* received := if siv_eqb version V6Ex then shl1_u64 site_shl_packet packet_no else Ok 0 in
  let* (clients, bits) := clients_loop (S (length r)) version ri offset r in
  Ok {| p_info := set_clients info clients; p_received := Z.lor received bits |}.

(* ---------- ServerInfo::sort_clients: derive(Ord) on ClientInfo ---------- *)

Definition lex (c1 c2 : comparison) : comparison := match c1 with Eq => c2 | _ => c1 end.

Fixpoint bytes_cmp (a b : bytes) : comparison :=
  match a, b with
  | [], [] => Eq
  | [], _ :: _ => Lt
  | _ :: _, [] => Gt
  | x :: a', y :: b' => lex (x ?= y) (bytes_cmp a' b')
  end.

Definition client_cmp (a b : client) : comparison :=
  lex (bytes_cmp (c_name a) (c_name b))
  (lex (bytes_cmp (c_clan a) (c_clan b))
  (lex (c_country a ?= c_country b)
  (lex (c_score a ?= c_score b) (c_flags a ?= c_flags b)))).

Definition client_leb (a b : client) : bool := match client_cmp a b with Gt => false | _ => true end.

Fixpoint insert_client (c : client) (l : list client) : list client :=
  match l with
  | [] => [c]
  | x :: l' => if client_leb c x then c :: l else x :: insert_client c l'
  end.

Fixpoint sort_clients (l : list client) : list client :=
  match l with [] => [] | c :: l' => insert_client c (sort_clients l') end.

Definition sort_info (i : sinfo) : sinfo := set_clients i (sort_clients (i_clients i)).

(* ---------- the seven Info*Response::parse ---------- *)

Inductive ikind := K5 | K6 | K6Ddper | K664 | K6Ex | K6ExMore | K7.

Definition ikind_reader (k : ikind) : int_reader := match k with K7 => IntV7 | _ => IntV5 end.
Definition ikind_rsiv (k : ikind) : rsiv :=
  match k with
  | K5 => RNormal V5 | K6 => RNormal V6 | K6Ddper => RNormal V6Ddper | K664 => RNormal V664
  | K6Ex => RNormal V6Ex | K6ExMore => RV6ExMore | K7 => RNormal V7
  end.
Definition is_partial_kind (k : ikind) : bool := match k with K664 | K6Ex | K6ExMore => true | _ => false end.

(* for the kinds that return a ServerInfo the clients are sorted (`raw.info.sort_clients()`);
   the others return the PartialServerInfo as parsed *)
Definition parse_info (k : ikind) (payload : bytes) : res unit psi :=
  let* p := parse_server_info (ikind_reader k) (ikind_rsiv k) payload in
  Ok (if is_partial_kind k then p
      else {| p_info := sort_info (p_info p); p_received := p_received p |}).

(* ---------- PartialServerInfo::merge / get_info / take_info ---------- *)

Inductive merge_err := DifferingTokens | DifferingVersions | NotMultipartVersion | OverlappingInfos.

(* `repaired` = false is the code as it is: `received` of the result is that of whichever operand
   ends up as `self`; `other.received` is never or-ed in (known finding K18).  `repaired` = true is
   the one-line repair `self.received |= other.received`, kept here so that Props/C18.v can show
   what it would establish; only `merge` = the code as it is is extracted and run. *)
Definition merge_gen (repaired : bool) (self other : psi) : psi * res merge_err unit :=
  let si := p_info self in
  let oi := p_info other in
  if negb (i_token si =? i_token oi) then (self, Err DifferingTokens) else
  if negb (siv_eqb (i_version si) (i_version oi)) then (self, Err DifferingVersions) else
  if negb (is_multipart (i_version si)) then (self, Err NotMultipartVersion) else
  if Z.land (p_received self) (p_received other) =? p_received other then (self, Ok tt) else
  if negb (Z.land (p_received self) (p_received other) =? 0) then (self, Err OverlappingInfos) else
  let (s, o) :=
    if siv_eqb (i_version si) V6Ex && (Z.land (p_received self) 1 =? 0)
    then (other, self) else (self, other) in                     (* mem::swap(self, &mut other) *)
  ({| p_info := set_clients (p_info s) (i_clients (p_info s) ++ i_clients (p_info o));
      p_received := if repaired then Z.lor (p_received s) (p_received o) else p_received s |}, Ok tt).

Definition merge : psi -> psi -> psi * res merge_err unit := merge_gen false.

(* class K18: an order (list of part indices) in which some part occurs twice *)
Definition mem_nat (i : nat) (l : list nat) : bool := existsb (Nat.eqb i) l.
Fixpoint has_repeat (o : list nat) : bool :=
  match o with [] => false | i :: o' => mem_nat i o' || has_repeat o' end.

(* Ok = Some (with the state whose clients are now sorted), Err tt = None (state unchanged) *)
Definition get_info (p : psi) : res unit (sinfo * psi) :=
  let n := Z.of_nat (length (i_clients (p_info p))) in
  if i32_max <? n then Panic site_assert_i32 else
  if negb (n =? i_num_clients (p_info p)) then Err tt else
  let i := sort_info (p_info p) in
  Ok (i, {| p_info := i; p_received := p_received p |}).

Definition take_info (p : psi) : res unit (sinfo * psi) :=
  let* (i, _) := get_info p in
  Ok (i, {| p_info := default_info; p_received := u64_ones |}).

(* ---------- parse_response ---------- *)

Record addr := { a_v4 : bool; a_ip : bytes; a_port : Z }.

Inductive response :=
| RList5 (l : list addr)
| RList6 (l : list addr)
| RList7 (own their : bytes) (l : list addr)
| RCount (n : Z)
| RCount7 (own their : bytes) (n : Z)
| RInfo5 (payload : bytes)
| RInfo6 (payload : bytes)
| RInfo6Ddper (payload : bytes)
| RInfo664 (payload : bytes)
| RInfo6Ex (payload : bytes)
| RInfo6ExMore (payload : bytes)
| RInfo7 (own their : bytes) (payload : bytes)
| RToken7 (own their : bytes).

Fixpoint bytes_eqb (a b : bytes) : bool :=
  match a, b with
  | [], [] => true
  | x :: a', y :: b' => (x =? y) && bytes_eqb a' b'
  | _, _ => false
  end.

Definition ff (n : nat) : bytes := repeat 255 n.

(* &data[n..] and &data[..n] with the bounds check *)
Definition slice_from (n : nat) (bs : bytes) : res unit bytes :=
  if (length bs <? n)%nat then Panic site_slice else Ok (skipn n bs).
Definition slice_to (n : nat) (bs : bytes) : res unit bytes :=
  if (length bs <? n)%nat then Panic site_slice else Ok (firstn n bs).

Fixpoint chunks (sz count : nat) (d : bytes) : list bytes :=
  match count with O => [] | S c => firstn sz d :: chunks sz c (skipn sz d) end.

(* parse_list5 / parse_list6: drop the remainder, reinterpret as packed addresses *)
Definition parse_list (sz : nat) (data : bytes) : res unit (list bytes) :=
  let remainder := (length data mod sz)%nat in
  let* d := slice_to (length data - remainder) data in
  if negb (length d mod sz =? 0)%nat then Panic site_transmute
  else Ok (chunks sz (length d / sz) d).

(* Addr5Packed::unpack: 4 address bytes, little-endian port *)
Definition unpack5 (c : bytes) : res unit addr :=
  match c with
  | [a; b; c'; d; p0; p1] => Ok {| a_v4 := true; a_ip := [a; b; c'; d]; a_port := p0 + 256 * p1 |}
  | _ => Panic site_transmute
  end.

(* Addr6Packed::unpack: 16 address bytes (IPv4-mapped ones become IPv4), big-endian port *)
Definition unpack6 (c : bytes) : res unit addr :=
  let ip := firstn 16 c in
  match skipn 16 c with
  | [p0; p1] =>
    if (length ip =? 16)%nat then
      Ok (if bytes_eqb (firstn 12 ip) IPV4_MAPPING
          then {| a_v4 := true; a_ip := skipn 12 ip; a_port := 256 * p0 + p1 |}
          else {| a_v4 := false; a_ip := ip; a_port := 256 * p0 + p1 |})
    else Panic site_transmute
  | _ => Panic site_transmute
  end.

Fixpoint map_res {A B} (f : A -> res unit B) (l : list A) : res unit (list B) :=
  match l with
  | [] => Ok []
  | x :: l' => let* y := f x in let* ys := map_res f l' in Ok (y :: ys)
  end.

Definition parse_list5 (data : bytes) : res unit (list addr) :=
  let* cs := parse_list 6 data in map_res unpack5 cs.
Definition parse_list6 (data : bytes) : res unit (list addr) :=
  let* cs := parse_list 18 data in map_res unpack6 cs.

Definition parse_token7 (data : bytes) : res unit bytes :=
  if (length data <? 4)%nat then Err tt else slice_to 4 data.

Definition parse_count (data : bytes) : res unit Z :=
  match data with
  | d0 :: d1 :: _ => Ok (Z.lor (Z.shiftl d0 8) d1)             (* ((data[0] as u16) << 8) | data[1] as u16 *)
  | _ => Err tt
  end.

Definition parse_response_token7 (data : bytes) : res unit response :=
  if (length data <? 8)%nat then Err tt else
  let* payload := slice_from 8 data in
  let* header := slice_to 8 data in
  let own := firstn 4 (skipn 3 header) in
  let header' := firstn 3 header ++ ff 4 ++ skipn 7 header in
  if bytes_eqb header' TOKEN_7 then
    let* their := parse_token7 payload in Ok (RToken7 own their)
  else Err tt.

Definition parse_response_7 (data : bytes) : res unit response :=
  if (length data <? 17)%nat then Err tt else
  let* payload := slice_from 17 data in
  let* header := slice_to 17 data in
  let own := firstn 4 (skipn 1 header) in
  let their := firstn 4 (skipn 5 header) in
  let header' := firstn 1 header ++ ff 8 ++ skipn 9 header in
  if bytes_eqb header' LIST_7 then let* l := parse_list6 payload in Ok (RList7 own their l)
  else if bytes_eqb header' INFO_7 then Ok (RInfo7 own their payload)
  else if bytes_eqb header' COUNT_7 then let* n := parse_count payload in Ok (RCount7 own their n)
  else Err tt.

Definition parse_response_6 (data : bytes) : res unit response :=
  if (length data <? 14)%nat then Err tt else
  match data with
  | [] => Panic site_slice                                      (* data[0] *)
  | b0 :: _ =>
    if Z.land b0 PACKETFLAG_CONNLESS =? 0 then Err tt else
    let* header := slice_to 14 data in
    let* payload := slice_from 14 data in
    let header' :=
      if negb (bytes_eqb (firstn 2 header) [100; 112])
         || negb (bytes_eqb (skipn 6 header) (skipn 6 INFO_6_DDPER))
      then ff 6 ++ skipn 6 header
      else firstn 2 header ++ [0; 0; 0; 0] ++ skipn 6 header in
    if bytes_eqb header' LIST_5 then let* l := parse_list5 payload in Ok (RList5 l)
    else if bytes_eqb header' LIST_6 then let* l := parse_list6 payload in Ok (RList6 l)
    else if bytes_eqb header' INFO_5 then Ok (RInfo5 payload)
    else if bytes_eqb header' INFO_6 then Ok (RInfo6 payload)
    else if bytes_eqb header' INFO_6_DDPER then Ok (RInfo6Ddper payload)
    else if bytes_eqb header' INFO_6_64 then Ok (RInfo664 payload)
    else if bytes_eqb header' INFO_6_EX then Ok (RInfo6Ex payload)
    else if bytes_eqb header' INFO_6_EX_MORE then Ok (RInfo6ExMore payload)
    else if bytes_eqb header' COUNT then let* n := parse_count payload in Ok (RCount n)
    else Err tt
  end.

Definition parse_response (data : bytes) : res unit response :=
  match data with
  | b :: _ =>
    if b =? 4 then parse_response_token7 data
    else if b =? 33 then parse_response_7 data
    else parse_response_6 data
  | [] => parse_response_6 data
  end.

(* what a caller does with an info response: Info*Response::parse on the payload *)
Definition response_info (r : response) : option (ikind * bytes) :=
  match r with
  | RInfo5 p => Some (K5, p) | RInfo6 p => Some (K6, p) | RInfo6Ddper p => Some (K6Ddper, p)
  | RInfo664 p => Some (K664, p) | RInfo6Ex p => Some (K6Ex, p) | RInfo6ExMore p => Some (K6ExMore, p)
  | RInfo7 _ _ p => Some (K7, p)
  | _ => None
  end.

(* Two 0.6 endpoints, the datagrams in flight between them, and the network as an adversary:
   labelled transition system for property C01. Ghost histories (what was submitted, what was
   delivered) are part of the state. Definitions only; not extracted. *)
From LibTw2 Require Export Model.Conn6 Model.LinkGhost.
Open Scope Z_scope.

Record lside := {
  l_conn : conn6;
  l_rand : list token;
  l_sub : list bytes;      (* vital payloads accepted by send, oldest first *)
  l_del : list bytes;      (* vital payloads handed to the application *)
  l_nvs : list bytes;      (* non-vital payloads accepted by send *)
  l_nvr : list bytes;      (* non-vital payloads handed to the application *)
  l_ready : Z;             (* number of Ready events *)
  l_answered : bool;       (* has emitted a ConnectAccept *)
}.

Inductive side := SA | SB.
Definition other (s : side) : side := match s with SA => SB | SB => SA end.

Record link := { k_a : lside; k_b : lside; k_ab : list flight; k_ba : list flight; k_now : Z }.
Definition get (w : link) (s : side) : lside := match s with SA => k_a w | SB => k_b w end.
(* datagrams sent by s, on their way to the other side *)
Definition bag (w : link) (s : side) : list flight := match s with SA => k_ab w | SB => k_ba w end.

Definition lside_new (rnd : list token) : lside :=
  {| l_conn := conn6_new; l_rand := rnd; l_sub := []; l_del := []; l_nvs := []; l_nvr := [];
     l_ready := 0; l_answered := false |}.
Definition link_new (ra rb : list token) : link :=
  {| k_a := lside_new ra; k_b := lside_new rb; k_ab := []; k_ba := []; k_now := 0 |}.

Inductive llabel :=
| LApp (s : side) (o : op)          (* an application call at side s (never OpFeed*, OpReset) *)
| LTime (dt : Z)
| LDeliver (from : side) (k : nat)  (* datagram k sent by `from` reaches the other side; it stays in
                                       the bag, so duplication and reordering are free choices of k *)
| LDrop (from : side) (k : nat).

Definition is_connect_accept (d : dgram) : bool :=
  match d with DControl _ _ ConnectAccept => true | _ => false end.

(* one call at one side; the datagrams it emits get the ghost counters from before the call *)
Definition side_step (now : Z) (x : lside) (o : op) : res unit (lside * list flight) :=
  match step (l_conn x) {| e_now := now; e_rand := l_rand x |} o with
  | Ok out =>
    let fl := map ((fun n dc d => {| f_d := d; f_n := n; f_c := dc |}) (zlen (l_sub x)) (zlen (l_del x))) (out_sent out) in
    let sub' := match o, out_res out with OpSend d true, ROk => l_sub x ++ [d] | _, _ => l_sub x end in
    let nvs' := match o, out_res out with OpSend d false, ROk => d :: l_nvs x | _, _ => l_nvs x end in
    Ok ({| l_conn := out_conn out; l_rand := e_rand (out_env out);
           l_sub := sub'; l_del := l_del x ++ vital_payloads (out_events out);
           l_nvs := nvs'; l_nvr := l_nvr x ++ nonvital_payloads (out_events out);
           l_ready := l_ready x + ready_events (out_events out);
           l_answered := l_answered x || existsb is_connect_accept (out_sent out) |}, fl)
  | Err e => Err e
  | Panic s => Panic s
  | OutOfFuel => OutOfFuel
  end.

Definition set_side (w : link) (s : side) (x : lside) (new_flights : list flight) : link :=
  match s with
  | SA => {| k_a := x; k_b := k_b w; k_ab := k_ab w ++ new_flights; k_ba := k_ba w; k_now := k_now w |}
  | SB => {| k_a := k_a w; k_b := x; k_ab := k_ab w; k_ba := k_ba w ++ new_flights; k_now := k_now w |}
  end.

Fixpoint remove_nth {A} (k : nat) (l : list A) : list A :=
  match k, l with
  | _, [] => []
  | O, _ :: r => r
  | S k', x :: r => x :: remove_nth k' r
  end.

Definition link_step (w : link) (l : llabel) : res unit link :=
  match l with
  | LApp s o =>
    match side_step (k_now w) (get w s) o with
    | Ok (x, fl) => Ok (set_side w s x fl)
    | Err e => Err e | Panic p => Panic p | OutOfFuel => OutOfFuel
    end
  | LTime dt => Ok {| k_a := k_a w; k_b := k_b w; k_ab := k_ab w; k_ba := k_ba w; k_now := k_now w + dt |}
  | LDeliver from k =>
    match nth_error (bag w from) k with
    | Some f =>
      match side_step (k_now w) (get w (other from)) (OpFeed (f_d f)) with
      | Ok (x, fl) => Ok (set_side w (other from) x fl)
      | Err e => Err e | Panic p => Panic p | OutOfFuel => OutOfFuel
      end
    | None => Ok w
    end
  | LDrop from k =>
    Ok (match from with
        | SA => {| k_a := k_a w; k_b := k_b w; k_ab := remove_nth k (k_ab w); k_ba := k_ba w; k_now := k_now w |}
        | SB => {| k_a := k_a w; k_b := k_b w; k_ab := k_ab w; k_ba := remove_nth k (k_ba w); k_now := k_now w |}
        end)
  end.

Fixpoint link_run (w : link) (ls : list llabel) : res unit link :=
  match ls with
  | [] => Ok w
  | l :: r => match link_step w l with
              | Ok w' => link_run w' r
              | e => e
              end
  end.

(* ---------- the assumptions of C01, as a predicate on a label in a state ---------- *)
Definition app_op (o : op) : Prop :=
  match o with OpFeed _ | OpFeedGarbage | OpReset => False | _ => True end.

(* (W) fewer than 512 vital chunks unacknowledged *)
Definition window_ok (x : lside) (o : op) : Prop :=
  match o, c_state (l_conn x) with
  | OpSend _ true, Online on => zlen (o_queue on) < 511
  | _, _ => True
  end.

(* (F) the datagram is not delayed across the 10-bit sequence space: its acknowledgement is less
   than 1024 chunks behind what the receiver has submitted, and none of its vital chunks is 768 or
   more chunks older than what the receiver has already been given (a packet holds at most 255
   chunks, so no chunk of it can alias the 1024-number space while it is being processed) *)
Definition fresh (f : flight) (rcv : lside) : Prop :=
  zlen (l_sub rcv) - f_c f < 1024 /\
  forall c s r, In c (dgram_chunks (f_d f)) -> ch_vital c = Some (s, r) ->
    zlen (l_del rcv) - idx_of (f_n f) s < 768.

(* The packet codec models with their Huffman parameter instantiated by the model of the
   real coder (Model/Huffman.v, property C07) over the built-in table instances::TEEWORLDS
   (Gen/HuffTable.v, regenerated from huffman/src/instances/teeworlds.rs on every run):
   HUFFMAN.compress(x, buffer) / HUFFMAN.decompress(y, buffer) as the packet layer calls them.
   Definitions only; Proofs/PacketInstProofs.v discharges the hypotheses of the packet
   theorems for this instance. *)
From LibTw2 Require Import Base.Res Model.Huffman Gen.HuffTable Model.PacketTypes Model.PacketBase.
From LibTw2 Require Model.Packet6 Model.Packet7.
Open Scope Z_scope.

Definition tw_table : table := of_list teeworlds_table.

(* None = buffer::CapacityError *)
Definition tw_comp (x : bytes) (cap : nat) : option bytes :=
  match compress tw_table x false cap with Ok c => Some c | _ => None end.

(* None = DecompressionError (only Capacity occurs, theorem C07_decoder_total) *)
Definition tw_decomp (y : bytes) (cap : nat) : option bytes :=
  match decompress (dec_fuel y cap) tw_table y cap with Ok d => Some d | _ => None end.

Definition write6_tw : packet6 -> nat -> res Consts6.wrerr6 bytes := Packet6.write6 tw_comp.
Definition read6_tw : bytes -> option bool -> nat -> Packet6.rres6 := Packet6.read6 tw_decomp.
Definition write7_tw : packet7 -> nat -> res Consts7.wrerr7 bytes := Packet7.write7 tw_comp.
Definition read7_tw : bytes -> nat -> Packet7.rres7 := Packet7.read7 tw_decomp.

(* The part of net/src/connection.rs and connection7.rs that is textually the
   same in both files: sequence numbers, packet contents, the resend queue,
   queue / send / flush / resend / ack_chunks / receive-chunks, timers.
   Datagrams are kept abstract (structured chunks, not bytes); their encoded
   size is tracked so that every size limit of the real code is in the model.
   Definitions only. *)
From LibTw2 Require Export Base.Res Model.PacketTypes.
Open Scope Z_scope.

(* ---------- protocol parameters (checked against Gen/Consts*.v in Proofs) ---------- *)
Record params := {
  p_v7 : bool;                 (* 0.7? *)
  p_header : Z;                (* packet header size: 3 / 7 *)
  p_size_bits : Z;             (* chunk size field: 10 / 12 bits *)
}.
Definition params6 := {| p_v7 := false; p_header := 3; p_size_bits := 10 |}.
Definition params7 := {| p_v7 := true; p_header := 7; p_size_bits := 12 |}.
Definition MAX_PACKETSIZE : Z := 1400.
Definition MAX_PAYLOAD : Z := 1390.
Definition SEQ_MOD : Z := 1024.

(* panic sites *)
Definition site_state_not_online : Z := 101.     (* State::assert_online *)
Definition site_write_chunk_size : Z := 102.     (* assert!(bytes.len() >> CHUNK_SIZE_BITS == 0) *)
Definition site_num_chunks_overflow : Z := 103.  (* self.num_chunks += 1 on a u8 (debug) *)
Definition site_packet_data_capacity : Z := 104. (* write_chunk(..).unwrap() into ArrayVec<[u8;2048]> *)
Definition site_builder_capacity : Z := 105.     (* unreachable!("too short buffer provided") *)
Definition site_resend_chunk_overlong : Z := 106. (* assert!(result.data.len() == data.len()) *)
Definition site_connect_state : Z := 107.        (* assert!(matches!(self.state, State::Unconnected)) *)
Definition site_disconnect_state : Z := 108.     (* disconnect on a disconnected connection / unreachable!() *)
Definition site_reason_nul : Z := 109.           (* assert!(reason.iter().all(|&b| b != 0)) *)
Definition site_reset_state : Z := 110.          (* assert!(matches!(self.state, State::Disconnected)) *)
Definition site_too_long_unwrap : Z := 111.      (* Error::unwrap_callback on TooLongData *)
Definition site_sequence_range : Z := 112.       (* Sequence::from_u16: assert!(seq < SEQUENCE_MODULUS) *)
Definition site_time_overflow : Z := 113.        (* Timestamp + Duration: checked_add().unwrap() *)

(* ---------- time ---------- *)
Definition timeout := option Z.                  (* None = inactive; Some t = microseconds *)
Definition tmin (a b : timeout) : timeout :=      (* cmp::min with inactive above everything *)
  match a, b with
  | None, _ => b
  | _, None => a
  | Some x, Some y => Some (Z.min x y)
  end.
Definition triggered (t : timeout) (now : Z) : bool :=
  match t with Some x => x <=? now | None => false end.
Definition ms (n : Z) : Z := n * 1000.

(* ---------- sequence numbers ---------- *)
Inductive sord := Past | Current | Future.
Definition seq_next (s : Z) : Z := (s + 1) mod SEQ_MOD.
Definition seq_compare (self other : Z) : sord :=
  if self <? other then (if other - self <? SEQ_MOD / 2 then Future else Past)
  else if other <? self then (if SEQ_MOD / 2 <? self - other then Future else Past)
  else Current.
Definition seq_update (self other : Z) : Z * sord :=
  let n := seq_next self in
  match seq_compare n other with
  | Current => (n, Current)
  | r => (self, r)
  end.

(* ---------- abstract datagrams ---------- *)
Inductive control :=
| KeepAlive
| Connect (resp : option token)      (* 0.6: None; 0.7: Some own_token *)
| ConnectAccept                      (* 0.6 only *)
| Accept
| Close (reason : bytes)
| TokenMsg (resp : token).           (* 0.7 only *)

Inductive dgram :=
| DConnless (tok resp : option token) (payload : bytes)      (* 0.6: no tokens *)
| DControl (tok : option token) (ack : Z) (c : control)
| DChunks (tok : option token) (ack : Z) (request_resend : bool) (num_chunks : Z) (chunks : list chunk).

Definition chunk_hdr (vital : bool) : Z := if vital then 3 else 2.
Definition is_vital (c : chunk) : bool := match ch_vital c with Some _ => true | None => false end.
Definition chunk_size (c : chunk) : Z := chunk_hdr (is_vital c) + Z.of_nat (length (ch_data c)).
Fixpoint chunks_size (cs : list chunk) : Z :=
  match cs with [] => 0 | c :: r => chunk_size c + chunks_size r end.

(* ---------- PacketContents ---------- *)
Record pcontents := { pc_num : Z; pc_chunks : list chunk }.   (* chunks in the order written *)
Definition pc_empty : pcontents := {| pc_num := 0; pc_chunks := [] |}.
Definition pc_len (p : pcontents) : Z := chunks_size (pc_chunks p).

(* fixes b250418 (chunk counter) and 8ebb95a (0.7: the space a packet really has) *)
Definition fit_limit (pp : params) : Z := if p_v7 pp then MAX_PAYLOAD + 3 else MAX_PAYLOAD.
Definition can_fit_chunk (pp : params) (p : pcontents) (len : Z) (vital : bool) : bool :=
  (pc_num p <? 255) && (pc_len p + chunk_hdr vital + len <=? fit_limit pp).

(* PacketContents::write_chunk: protocol::write_chunk(..).unwrap(); num_chunks += 1 *)
Definition pc_write_chunk (pp : params) (p : pcontents) (data : bytes) (vital : option (Z * bool))
  : res unit pcontents :=
  let len := Z.of_nat (length data) in
  if 2 ^ p_size_bits pp <=? len then Panic site_write_chunk_size
  else
    let c := {| ch_data := data; ch_vital := vital |} in
    if 2048 <? pc_len p + chunk_size c then Panic site_packet_data_capacity
    else if 255 <=? pc_num p then Panic site_num_chunks_overflow
    else Ok {| pc_num := pc_num p + 1; pc_chunks := pc_chunks p ++ [c] |}.

(* ---------- resend queue ---------- *)
Record rchunk := { rc_next : timeout; rc_seq : Z; rc_data : bytes }.

(* ---------- online state ---------- *)
Record online := {
  o_own : option token;        (* expected on incoming datagrams (0.6: the token; 0.7: own_token) *)
  o_their : option token;      (* put on outgoing datagrams (0.6: the token; 0.7: their_token) *)
  o_ack : Z;
  o_seq : Z;
  o_rr : bool;                 (* request_resend *)
  o_packet : pcontents;
  o_packet_nv : pcontents;
  o_queue : list rchunk;       (* front = most recently sent *)
}.
Definition online_new (own their : option token) : online :=
  {| o_own := own; o_their := their; o_ack := 0; o_seq := 0; o_rr := false;
     o_packet := pc_empty; o_packet_nv := pc_empty; o_queue := [] |}.

Definition can_send (o : online) : bool := negb (pc_num (o_packet o) =? 0) || o_rr o.

(* position(|c| c.sequence == ack).map(|i| truncate(i)) *)
Fixpoint take_until_seq (q : list rchunk) (ack : Z) : option (list rchunk) :=
  match q with
  | [] => None
  | c :: r => if rc_seq c =? ack then Some []
              else match take_until_seq r ack with Some l => Some (c :: l) | None => None end
  end.
Definition ack_chunks (o : online) (ack : Z) : online :=
  match take_until_seq (o_queue o) ack with
  | Some q => {| o_own := o_own o; o_their := o_their o; o_ack := o_ack o; o_seq := o_seq o;
                 o_rr := o_rr o; o_packet := o_packet o; o_packet_nv := o_packet_nv o; o_queue := q |}
  | None => o
  end.

(* encoded size of a datagram, as Packet::write lays it out *)
Definition tok_size6 (t : option token) : Z := match t with Some _ => 4 | None => 0 end.
Definition control_size (pp : params) (tok : option token) (c : control) : Z :=
  if p_v7 pp then
    7 + 1 + match c with
            | Connect _ => 4
            | TokenMsg _ =>
              (* a token request (header token NONE) is padded to TOKEN_REQUEST_PACKET_SIZE = 519 bytes *)
              match tok with
              | Some t => if list_eq_dec Z.eq_dec t TOKEN_NONE then 519 - 7 - 1 else 4
              | None => 4
              end
            | Close r => Z.of_nat (length r) + 1
            | _ => 0
            end
  else
    3 + 1 + match c with
            | Connect _ | ConnectAccept => match tok with Some _ => 4 | None => 0 end
            | Close r => Z.of_nat (length r) + 1
            | _ => 0
            end + tok_size6 tok.
Definition chunks_dgram_size (pp : params) (tok : option token) (payload_len : Z) : Z :=
  p_header pp + payload_len + (if p_v7 pp then 0 else tok_size6 tok).

(* what one call hands to the outside *)
Inductive ev :=
| EvConnless (d : bytes)
| EvChunk (d : bytes) (vital : bool)
| EvReady
| EvDisconnect (reason : bytes).

(* OnlineState::flush via PacketBuilder::send; the send timer is set by the callers *)
Definition o_clear (o : online) : online :=
  {| o_own := o_own o; o_their := o_their o; o_ack := o_ack o; o_seq := o_seq o;
     o_rr := false; o_packet := pc_empty; o_packet_nv := pc_empty; o_queue := o_queue o |}.

Definition online_flush (pp : params) (o : online) : res unit (online * list dgram) :=
  if negb (can_send o) then Ok (o, [])
  else
    (* Packet::write into the 1400-byte builder buffer: a CapacityError is unreachable!() *)
    if MAX_PACKETSIZE <? chunks_dgram_size pp (o_their o) (pc_len (o_packet o))
    then Panic site_builder_capacity
    else Ok (o_clear o,
             [DChunks (o_their o) (o_ack o) (o_rr o) (pc_num (o_packet o)) (pc_chunks (o_packet o))]).

Definition o_set_packets (o : online) (p nv : pcontents) : online :=
  {| o_own := o_own o; o_their := o_their o; o_ack := o_ack o; o_seq := o_seq o;
     o_rr := o_rr o; o_packet := p; o_packet_nv := nv; o_queue := o_queue o |}.

(* Connection::queue *)
Definition online_queue (pp : params) (now : Z) (o : online) (data : bytes) (vital : bool)
  : res unit online :=
  if vital then
    let s := seq_next (o_seq o) in
    (* ResendChunk::new: data collected into ArrayVec<[u8;2048]>, assert nothing was cut off *)
    if 2048 <? Z.of_nat (length data) then Panic site_resend_chunk_overlong else
    let rc := {| rc_next := Some (now + ms 1000); rc_seq := s; rc_data := data |} in
    match pc_write_chunk pp (o_packet o) data (Some (s, false)) with
    | Ok p => Ok {| o_own := o_own o; o_their := o_their o; o_ack := o_ack o; o_seq := s;
                    o_rr := o_rr o; o_packet := p; o_packet_nv := o_packet_nv o;
                    o_queue := rc :: o_queue o |}
    | Err e => Err e | Panic s' => Panic s' | OutOfFuel => OutOfFuel
    end
  else
    match pc_write_chunk pp (o_packet_nv o) data None with
    | Ok nv =>
      match pc_write_chunk pp (o_packet o) data None with
      | Ok p => Ok (o_set_packets o p nv)
      | Err e => Err e | Panic s' => Panic s' | OutOfFuel => OutOfFuel
      end
    | Err e => Err e | Panic s' => Panic s' | OutOfFuel => OutOfFuel
    end.

(* Connection::send (the online part): Err TooLongData leaves everything untouched *)
Inductive send_res := SendOk | SendTooLong.
Definition online_send (pp : params) (now : Z) (o : online) (data : bytes) (vital : bool)
  : res unit (online * list dgram * send_res) :=
  let len := Z.of_nat (length data) in
  (* 0.6 (fix 4e1681c): also refuse what the chunk header's size field cannot express;
     connection7.rs has no such clause (2^12 > MAX_PAYLOAD) *)
  if (MAX_PAYLOAD <? len) || (negb (p_v7 pp) && (2 ^ p_size_bits pp <=? len)) then Ok (o, [], SendTooLong)
  else
    let* (o1, out) :=
      (if negb (can_fit_chunk pp (o_packet o) len vital) then online_flush pp o else Ok (o, [])) in
    let* o2 := online_queue pp now o1 data vital in
    Ok (o2, out, SendOk).

(* Connection::resend. `fuel` bounds the `while i < len` loop; the send timer is set
   (to now + 500ms) whenever a flush happens inside the loop: reported as a flag *)
Definition restart_timers (now : Z) (q : list rchunk) : list rchunk :=
  map (fun c => {| rc_next := Some (now + ms 1000); rc_seq := rc_seq c; rc_data := rc_data c |}) q.

Fixpoint resend_loop (pp : params) (fuel : nat) (o : online) (todo : list rchunk) (out : list dgram)
  (timer_set : bool) : res unit (online * list dgram * bool) :=
  match todo with
  | [] => Ok (o, out, timer_set)
  | c :: rest =>
    match fuel with
    | O => OutOfFuel
    | S fuel' =>
      if can_fit_chunk pp (o_packet o) (Z.of_nat (length (rc_data c))) true then
        match pc_write_chunk pp (o_packet o) (rc_data c) (Some (rc_seq c, true)) with
        | Ok p => resend_loop pp fuel' (o_set_packets o p (o_packet_nv o)) rest out timer_set
        | Err e => Err e | Panic s => Panic s | OutOfFuel => OutOfFuel
        end
      else
        match online_flush pp o with
        | Ok (o', d) => resend_loop pp fuel' o' todo (out ++ d) true
        | Err e => Err e | Panic s => Panic s | OutOfFuel => OutOfFuel
        end
    end
  end.

Definition resend_fuel (o : online) : nat := (2 * length (o_queue o) + 2)%nat.

Definition online_resend (pp : params) (now : Z) (o : online) : res unit (online * list dgram * bool) :=
  match o_queue o with
  | [] => Ok (o, [], false)
  | _ =>
    let q := restart_timers now (o_queue o) in
    let o1 := {| o_own := o_own o; o_their := o_their o; o_ack := o_ack o; o_seq := o_seq o;
                 o_rr := o_rr o; o_packet := o_packet_nv o; o_packet_nv := o_packet_nv o;
                 o_queue := q |} in
    (* oldest first: the queue is walked from the back *)
    resend_loop pp (resend_fuel o) o1 (rev q) [] false
  end.

(* ReceivePacket::connected + the lazy ReceiveChunks iterator: one pass over the chunks *)
Fixpoint recv_chunks (ack : Z) (rr : bool) (cs : list chunk) : res unit (Z * bool * list ev) :=
  match cs with
  | [] => Ok (ack, rr, [])
  | c :: rest =>
    match ch_vital c with
    | Some (s, _) =>
      if (s <? 0) || (SEQ_MOD <=? s) then Panic site_sequence_range else
      match seq_update ack s with
      | (ack', Current) =>
        match recv_chunks ack' rr rest with
        | Ok (a, r, evs) => Ok (a, r, EvChunk (ch_data c) true :: evs)
        | e => e
        end
      | (_, _) => recv_chunks ack true rest
      end
    | None =>
      match recv_chunks ack rr rest with
      | Ok (a, r, evs) => Ok (a, r, EvChunk (ch_data c) false :: evs)
      | e => e
      end
    end
  end.

Definition o_set_ack (o : online) (ack : Z) (rr : bool) : online :=
  {| o_own := o_own o; o_their := o_their o; o_ack := ack; o_seq := o_seq o;
     o_rr := rr; o_packet := o_packet o; o_packet_nv := o_packet_nv o; o_queue := o_queue o |}.

(* oldest entry of the resend queue *)
Definition queue_back (q : list rchunk) : option rchunk := last (map Some q) None.

(* ---------- the environment: clock and random stream ---------- *)
Record env := { e_now : Z; e_rand : list token }.

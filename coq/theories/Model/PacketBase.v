(* Pieces shared by the two packet codec models (Packet6.v, Packet7.v) and by the
   generated bit-field files (Gen/Bits6.v, Gen/Bits7.v): truncation to a machine
   width, slices with provenance (which buffer, at which offset), the bounded
   write buffer (BufferRef::write), NUL search, a UTF-8 validator (str::from_utf8).
   Definitions only. *)
From LibTw2 Require Export Base.Res.
Open Scope Z_scope.

(* `as uN` / the bits a uN keeps after `<<` *)
Definition trunc (w : Z) (x : Z) : Z := x mod 2 ^ w.

(* `x & m != 0` *)
Definition land_ne0 (x m : Z) : bool := negb (Z.land x m =? 0).

Definition bool_flag (b : bool) (f : Z) : Z := if b then f else 0.

(* ---------- provenance ---------- *)

(* every slice the reader returns points into the datagram it was given or into the
   scratch buffer it was given *)
Inductive source : Set := Input | Scratch.
Record view : Set := { v_src : source; v_off : nat; v_len : nat }.

(* a slice while it is being cut up: where it starts and what it holds *)
Record slice : Set := { s_src : source; s_off : nat; s_data : bytes }.

Definition view_of (s : slice) : view :=
  {| v_src := s_src s; v_off := s_off s; v_len := length (s_data s) |}.
(* &s[n..] and &s[..n] (callers check n <= len first, as the code does) *)
Definition slice_skip (n : nat) (s : slice) : slice :=
  {| s_src := s_src s; s_off := (s_off s + n)%nat; s_data := skipn n (s_data s) |}.
Definition slice_take (n : nat) (s : slice) : slice :=
  {| s_src := s_src s; s_off := s_off s; s_data := firstn n (s_data s) |}.

(* ---------- the bounded write buffer: BufferRef::write = extend ---------- *)

Record wbuf : Set := { wb_data : bytes; wb_cap : nat }.
Definition wb_new (cap : nat) : wbuf := {| wb_data := []; wb_cap := cap |}.
(* byte by byte until the capacity is reached: the fitting prefix stays behind *)
Definition wb_write (t : wbuf) (bs : bytes) : wbuf * bool :=
  let room := (wb_cap t - length (wb_data t))%nat in
  if (length bs <=? room)%nat
  then ({| wb_data := wb_data t ++ bs; wb_cap := wb_cap t |}, true)
  else ({| wb_data := wb_data t ++ firstn room bs; wb_cap := wb_cap t |}, false).

(* ---------- small list helpers ---------- *)

(* payload.iter().position(|&b| b == 0).unwrap_or(payload.len()) *)
Fixpoint find_nul (bs : bytes) : nat :=
  match bs with
  | [] => O
  | b :: r => if b =? 0 then O else S (find_nul r)
  end.

Definition has_nul (bs : bytes) : bool := existsb (fun b => b =? 0) bs.
Definition all_ff (bs : bytes) : bool := forallb (fun b => b =? 255) bs.

Fixpoint bytes_eqb (a b : bytes) : bool :=
  match a, b with
  | [], [] => true
  | x :: a', y :: b' => (x =? y) && bytes_eqb a' b'
  | _, _ => false
  end.

(* slice.starts_with(prefix) *)
Fixpoint starts_with (bs prefix : bytes) : bool :=
  match prefix, bs with
  | [], _ => true
  | p :: prefix', b :: bs' => (b =? p) && starts_with bs' prefix'
  | _ :: _, [] => false
  end.

(* a Token is four bytes *)
Definition token_ok (t : bytes) : bool := (length t =? 4)%nat.

(* ---------- str::from_utf8(..).is_ok(): well-formed UTF-8 (Unicode table 3-7) ---------- *)

Definition in_r (b lo hi : Z) : bool := (lo <=? b) && (b <=? hi).
Definition cont (b : Z) : bool := in_r b 128 191.

Fixpoint utf8_valid (bs : bytes) : bool :=
  match bs with
  | [] => true
  | b0 :: r0 =>
    if b0 <=? 127 then utf8_valid r0
    else if in_r b0 194 223 then
      match r0 with b1 :: r1 => cont b1 && utf8_valid r1 | _ => false end
    else if in_r b0 224 239 then
      match r0 with
      | b1 :: b2 :: r2 =>
        (if b0 =? 224 then in_r b1 160 191
         else if b0 =? 237 then in_r b1 128 159
         else cont b1) && cont b2 && utf8_valid r2
      | _ => false
      end
    else if in_r b0 240 244 then
      match r0 with
      | b1 :: b2 :: b3 :: r3 =>
        (if b0 =? 240 then in_r b1 144 191
         else if b0 =? 244 then in_r b1 128 143
         else cont b1) && cont b2 && cont b3 && utf8_valid r3
      | _ => false
      end
    else false
  end.

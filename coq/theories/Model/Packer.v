(* Model of Packer / Unpacker of packer/src/lib.rs over a capacity-bounded
   target (BufferRef::write = extend: the fitting prefix is written, then
   CapacityError). Definitions only. *)
From LibTw2 Require Export Base.Res Model.Varint.
Open Scope Z_scope.

(* ---------- write side ---------- *)

Record target := { t_data : bytes; t_cap : nat }.

(* BufferRef::write: byte by byte until the capacity is reached *)
Definition buf_write (t : target) (bs : bytes) : target * bool :=
  let room := (t_cap t - length (t_data t))%nat in
  if (length bs <=? room)%nat
  then ({| t_data := t_data t ++ bs; t_cap := t_cap t |}, true)
  else ({| t_data := t_data t ++ firstn room bs; t_cap := t_cap t |}, false).

Inductive field :=
| FInt (v : Z)
| FStr (s : bytes)
| FData (d : bytes)
| FRaw (r : bytes)
| FRest (r : bytes).

Inductive perr := CapacityError.

Definition has_nul (s : bytes) : bool := existsb (fun b => b =? 0) s.

Definition pack_int (t : target) (v : Z) : target * res perr unit :=
  match write_int v with
  | Ok bs => let (t', ok) := buf_write t bs in (t', if ok then Ok tt else Err CapacityError)
  | Err _ => (t, Panic site_arrayvec_push)
  | Panic s => (t, Panic s)
  | OutOfFuel => (t, OutOfFuel)
  end.

Definition pack_field (t : target) (f : field) : target * res perr unit :=
  match f with
  | FInt v => pack_int t v
  | FStr s =>
    if has_nul s then (t, Panic site_write_string_nul) else
    let (t1, ok1) := buf_write t s in
    if negb ok1 then (t1, Err CapacityError) else
    let (t2, ok2) := buf_write t1 [0] in
    (t2, if ok2 then Ok tt else Err CapacityError)
  | FData d =>
    (* data.len().try_i32().ok_or(CapacityError)? *)
    if i32_max <? Z.of_nat (length d) then (t, Err CapacityError) else
    match pack_int t (Z.of_nat (length d)) with
    | (t1, Ok _) => let (t2, ok) := buf_write t1 d in (t2, if ok then Ok tt else Err CapacityError)
    | r => r
    end
  | FRaw r | FRest r =>
    let (t', ok) := buf_write t r in (t', if ok then Ok tt else Err CapacityError)
  end.

(* a sequence of writes with `?`: stop at the first failure, keep what was written *)
Fixpoint pack_fields (t : target) (fs : list field) : target * res perr unit :=
  match fs with
  | [] => (t, Ok tt)
  | f :: fs' =>
    match pack_field t f with
    | (t', Ok _) => pack_fields t' fs'
    | r => r
    end
  end.

Definition pack (fs : list field) (cap : nat) : bytes * res perr unit :=
  let (t, r) := pack_fields {| t_data := []; t_cap := cap |} fs in (t_data t, r).

(* ---------- read side ---------- *)

Inductive kind := KInt | KStr | KData | KRaw (n : nat) | KRest.

Definition kind_of (f : field) : kind :=
  match f with
  | FInt _ => KInt | FStr _ => KStr | FData _ => KData
  | FRaw r => KRaw (length r) | FRest _ => KRest
  end.

(* the remaining input is the whole state (plus the demo flag, only used by finish) *)
Fixpoint split_nul (bs : bytes) : option (bytes * bytes) :=
  match bs with
  | [] => None
  | b :: r => if b =? 0 then Some ([], r)
              else match split_nul r with Some (s, r') => Some (b :: s, r') | None => None end
  end.

(* result of one read: new remaining input, value or UnexpectedEnd, warnings *)
Definition unpack_step (rest : bytes) (k : kind) : bytes * res unit field * list pwarn :=
  match k with
  | KInt =>
    match read_int rest with
    | Ok (v, ws, r) => (r, Ok (FInt v), ws)
    | Err _ => ([], Err tt, [])       (* the iterator ran dry *)
    | Panic s => ([], Panic s, [])
    | OutOfFuel => ([], OutOfFuel, [])
    end
  | KStr =>
    match split_nul rest with
    | Some (s, r) => (r, Ok (FStr s), [])
    | None => ([], Err tt, [])
    end
  | KData =>
    match read_int rest with
    | Ok (v, ws, r) =>
      (* try_usize: negative lengths fail; error() uses the input up *)
      if v <? 0 then ([], Err tt, ws)
      else if Z.of_nat (length r) <? v then ([], Err tt, ws)   (* compared in Z: v may be 2^31-1 *)
      else (skipn (Z.to_nat v) r, Ok (FData (firstn (Z.to_nat v) r)), ws)
    | Err _ => ([], Err tt, [])
    | Panic s => ([], Panic s, [])
    | OutOfFuel => ([], OutOfFuel, [])
    end
  | KRaw n =>
    if (length rest <? n)%nat then ([], Err tt, [])
    else (skipn n rest, Ok (FRaw (firstn n rest)), [])
  | KRest => ([], Ok (FRest rest), [])
  end.

(* read a list of kinds with `?` *)
Fixpoint unpack (ks : list kind) (rest : bytes) : res unit (list field * list pwarn * bytes) :=
  match ks with
  | [] => Ok ([], [], rest)
  | k :: ks' =>
    match unpack_step rest k with
    | (r, Ok f, ws) =>
      match unpack ks' r with
      | Ok (fs, ws', r') => Ok (f :: fs, ws ++ ws', r')
      | e => e
      end
    | (_, Err e, _) => Err e
    | (_, Panic s, _) => Panic s
    | (_, OutOfFuel, _) => OutOfFuel
    end
  end.

(* Unpacker::finish: does it warn ExcessData? *)
Definition finish_warns (demo : bool) (rest : bytes) : bool :=
  if demo then (4 <=? length rest)%nat || existsb (fun b => negb (b =? 0)) rest
  else negb (length rest =? 0)%nat.

(* ---------- encoded size of a field list (for the capacity theorem) ---------- *)

Definition field_bytes (f : field) : bytes :=
  match f with
  | FInt v => write_int_bytes v
  | FStr s => s ++ [0]
  | FData d => write_int_bytes (Z.of_nat (length d)) ++ d
  | FRaw r | FRest r => r
  end.

Definition encoding (fs : list field) : bytes := flat_map field_bytes fs.

Definition field_wf (f : field) : bool :=
  match f with
  | FInt v => is_i32 v
  | FStr s => negb (has_nul s) && bytes_ok s
  | FData d => (Z.of_nat (length d) <=? i32_max) && bytes_ok d
  | FRaw r | FRest r => bytes_ok r
  end.

(* a FRest field is only meaningful in last position *)
Fixpoint rest_last (fs : list field) : bool :=
  match fs with
  | [] => true
  | FRest _ :: (_ :: _) => false
  | _ :: fs' => rest_last fs'
  end.

Definition fields_wf (fs : list field) : bool := forallb field_wf fs && rest_last fs.

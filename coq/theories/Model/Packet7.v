(* Model of the 0.7 packet codec, net/src/protocol7.rs:
   Packet::write (ConnectedPacket::write_impl, ControlPacket::write incl. the
   token-request padding to TOKEN_REQUEST_PACKET_SIZE, write_connless_packet),
   Packet::read / read_panic_on_decompression (read_impl), decompress(_if_needed),
   ChunksIter::next_warn, read_chunk_header, write_chunk.
   Bit-field leaf functions and constants are regenerated from the Rust source
   (Gen/Bits7.v, Gen/Consts7.v; the chunk-header padding mask is the one of the
   repaired code, /repo commit 6d5326e). The Huffman coder is a parameter, as in Packet6.v.
   Definitions only; proofs live in Proofs/Packet7*.v. *)
From LibTw2 Require Export Base.Res Model.PacketTypes Model.PacketBase Gen.Consts7 Gen.Bits7.
Open Scope Z_scope.

Definition site7_read_small_buffer : Z := 750.      (* read_impl: assert!(buffer.remaining() >= MAX_PACKETSIZE) *)
Definition site7_read_no_buffer : Z := 751.         (* read_panic_on_decompression on a compressed packet *)
Definition site7_decompress_small_buffer : Z := 752. (* decompress(_if_needed)_impl: assert!(buffer.remaining() >= MAX_PACKETSIZE) *)
Definition site7_decompress_not_needed : Z := 753.  (* decompress_impl: assert!(needs_decompression(packet)) and the flag asserts *)
Definition site7_decompress_unwrap : Z := 754.      (* decompress_impl: buffer.write(fake_header).unwrap() / ref_and_rest_from(..).unwrap() *)
Definition site7_close_reason_nul : Z := 755.       (* ControlPacket::write: assert!(m.iter().all(|&b| b != 0)) *)
Definition site7_control_too_long : Z := 756.       (* ControlPacket::write: assert!(result.len() <= MAX_PACKETSIZE) *)
Definition site7_write_chunk_size : Z := 757.       (* write_chunk_impl: assert!(bytes.len() >> CHUNK_SIZE_BITS == 0) *)
Definition site7_chunks_remaining_overflow : Z := 758. (* ChunksIter::next_warn: num_remaining_chunks -= 1 on i32::MIN (debug) *)
Definition site7_response_token_none : Z := 759.    (* ControlPacket::write: assert!(response_token != TOKEN_NONE) *)

Definition ARRAYVEC_CAP7 : nat := 2048.

Definition HuffC7 := bytes -> nat -> option bytes.

(* ================= write side ================= *)

Definition wres7 := (wbuf * res wrerr7 unit)%type.

Definition wstep7 (t : wbuf) (bs : bytes) (k : wbuf -> wres7) : wres7 :=
  let (t', ok) := wb_write t bs in
  if ok then k t' else (t', Err WE7Capacity).

Definition wdone7 (t : wbuf) : wres7 := (t, Ok tt).

Definition write_header7 (t : wbuf) (h : PacketHeader7) (k : wbuf -> wres7) : wres7 :=
  match PacketHeader7_pack h with
  | Ok hp => wstep7 t (PacketHeaderPacked7_as_bytes hp) k
  | Err e => match e with end
  | Panic s => (t, Panic s)
  | OutOfFuel => (t, OutOfFuel)
  end.

(* write_connless_packet *)
Definition write_connless7 (payload : bytes) (tok rtok : token) (t : wbuf) : wres7 :=
  if Z.of_nat (length payload) >? MAX_PAYLOAD then (t, Err WE7TooLongData) else
  match PacketHeaderConnless7_pack {| phc7_flags := PACKETFLAG_CONNLESS; phc7_version := CONNLESS_VERSION;
                                      phc7_token := tok; phc7_response_token := rtok |} with
  | Ok hp => wstep7 t (PacketHeaderConnlessPacked7_as_bytes hp) (fun t => wstep7 t payload wdone7)
  | Err e => match e with end
  | Panic s => (t, Panic s)
  | OutOfFuel => (t, OutOfFuel)
  end.

Definition ctrl_magic7 (c : control7) : Z :=
  match c with
  | C7KeepAlive => CTRLMSG_KEEPALIVE
  | C7Connect _ => CTRLMSG_CONNECT
  | C7Accept => CTRLMSG_ACCEPT
  | C7Close _ => CTRLMSG_CLOSE
  | C7Token _ => CTRLMSG_TOKEN
  end.

(* TOKEN_REQUEST_PACKET_SIZE - size_of::<PacketHeaderPacked>() - 1 - size_of::<Token>() *)
Definition TOKEN_REQUEST_ADDITIONAL : Z := TOKEN_REQUEST_PACKET_SIZE - PacketHeaderPacked7_size - 1 - 4.

(* ControlPacket::write *)
Definition write_control7 (c : control7) (tok : token) (ack : Z) (t : wbuf) : wres7 :=
  write_header7 t {| ph7_flags := PACKETFLAG_CONTROL; ph7_ack := ack; ph7_num_chunks := 0; ph7_token := tok |} (fun t =>
  wstep7 t [ctrl_magic7 c] (fun t =>
  let finish := fun t : wbuf =>
    if Z.of_nat (length (wb_data t)) >? MAX_PACKETSIZE then (t, Panic site7_control_too_long)
    else wdone7 t in
  match c with
  | C7KeepAlive => finish t
  | C7Connect rt =>
    if bytes_eqb rt TOKEN_NONE then (t, Panic site7_response_token_none) else
    wstep7 t rt finish
  | C7Accept => finish t
  | C7Close m =>
    if has_nul m then (t, Panic site7_close_reason_nul) else
    wstep7 t m (fun t => wstep7 t [0] finish)
  | C7Token rt =>
    if bytes_eqb rt TOKEN_NONE then (t, Panic site7_response_token_none) else
    wstep7 t rt (fun t =>
    if bytes_eqb tok TOKEN_NONE
    then wstep7 t (repeat 0 (Z.to_nat TOKEN_REQUEST_ADDITIONAL)) finish
    else finish t)
  end)).

(* ConnectedPacket::write_impl *)
Definition write_connected7 (comp : HuffC7) (ack : Z) (tok : token) (ty : ptype7) (t : wbuf) : wres7 :=
  match ty with
  | P7Chunks request_resend num_chunks payload =>
    let comp_result := comp payload ARRAYVEC_CAP7 in
    let compression :=
      match comp_result with Some s => (length s <? length payload)%nat | None => false end in
    let flags := Z.lor (bool_flag request_resend PACKETFLAG_REQUEST_RESEND)
                       (bool_flag compression PACKETFLAG_COMPRESSION) in
    write_header7 t {| ph7_flags := flags; ph7_ack := ack; ph7_num_chunks := num_chunks; ph7_token := tok |} (fun t =>
    wstep7 t (if compression then match comp_result with Some s => s | None => [] end else payload) wdone7)
  | P7Control c => write_control7 c tok ack t
  end.

Definition write7_full (comp : HuffC7) (p : packet7) (cap : nat) : bytes * res wrerr7 unit :=
  let (t, r) :=
    match p with
    | P7Connless payload tok rtok => write_connless7 payload tok rtok (wb_new cap)
    | P7Connected ack tok ty => write_connected7 comp ack tok ty (wb_new cap)
    end in
  (wb_data t, r).

Definition write7 (comp : HuffC7) (p : packet7) (cap : nat) : res wrerr7 bytes :=
  match write7_full comp p cap with
  | (out, Ok _) => Ok out
  | (_, Err e) => Err e
  | (_, Panic s) => Panic s
  | (_, OutOfFuel) => OutOfFuel
  end.

(* write_chunk(bytes, vital, buffer); Err tt = buffer::CapacityError *)
Definition write_chunk7_full (data : bytes) (vital : option (Z * bool)) (cap : nat) : bytes * res unit unit :=
  let len := Z.of_nat (length data) in
  if negb (Z.shiftr len CHUNK_SIZE_BITS =? 0) then ([], Panic site7_write_chunk_size) else
  let '(sequence, resend) := match vital with Some v => v | None => (0, false) end in
  let resend_flag := bool_flag resend CHUNKFLAG_RESEND in
  let vital_flag := bool_flag (match vital with Some _ => true | None => false end) CHUNKFLAG_VITAL in
  let header_nonvital := {| ch7_flags := Z.lor vital_flag resend_flag; ch7_size := len |} in
  let header : res Empty_set bytes :=
    match vital with
    | Some _ =>
      match ChunkHeaderVital7_pack {| chv7_h := header_nonvital; chv7_sequence := sequence |} with
      | Ok hp => Ok (ChunkHeaderVitalPacked7_as_bytes hp)
      | Err e => Err e | Panic s => Panic s | OutOfFuel => OutOfFuel
      end
    | None =>
      match ChunkHeader7_pack header_nonvital with
      | Ok hp => Ok (ChunkHeaderPacked7_as_bytes hp)
      | Err e => Err e | Panic s => Panic s | OutOfFuel => OutOfFuel
      end
    end in
  match header with
  | Ok hb =>
    let (t1, ok1) := wb_write (wb_new cap) hb in
    if negb ok1 then (wb_data t1, Err tt) else
    let (t2, ok2) := wb_write t1 data in
    (wb_data t2, if ok2 then Ok tt else Err tt)
  | Err e => match e with end
  | Panic s => ([], Panic s)
  | OutOfFuel => ([], OutOfFuel)
  end.

Definition write_chunk7 (data : bytes) (vital : option (Z * bool)) (cap : nat) : res unit bytes :=
  match write_chunk7_full data vital cap with
  | (out, Ok _) => Ok out
  | (_, Err e) => Err e
  | (_, Panic s) => Panic s
  | (_, OutOfFuel) => OutOfFuel
  end.

(* ================= chunk iterator ================= *)

Definition read_chunk_header7 (data : bytes)
  : option (ChunkHeader7 * option Z * nat * bytes) * list warning7 :=
  match ChunkHeaderPacked7_of_bytes data with
  | None => (None, [])
  | Some (raw, rest2) =>
    let (header, _) := ChunkHeaderPacked7_unpack_warn raw in      (* &mut Ignore *)
    if land_ne0 (ch7_flags header) CHUNKFLAG_VITAL then
      match ChunkHeaderVitalPacked7_of_bytes data with
      | None => (None, [])
      | Some (rawv, rest3) =>
        let (hv, ws) := ChunkHeaderVitalPacked7_unpack_warn rawv in
        (Some (chv7_h hv, Some (chv7_sequence hv), 3%nat, rest3), ws)
      end
    else
      let (_, ws) := ChunkHeaderPacked7_unpack_warn raw in
      (Some (header, None, 2%nat, rest2), ws)
  end.

Record citer7 : Set := { ci7_data : bytes; ci7_pos : nat; ci7_remaining : Z; ci7_checked : bool }.

Definition chunks_new7 (data : bytes) (num_chunks : Z) : citer7 :=
  {| ci7_data := data; ci7_pos := O; ci7_remaining := num_chunks; ci7_checked := false |}.

Definition excess7 (it : citer7) : citer7 :=
  {| ci7_data := []; ci7_pos := (ci7_pos it + length (ci7_data it))%nat;
     ci7_remaining := ci7_remaining it; ci7_checked := ci7_checked it |}.

Definition chunks_next7 (it : citer7) : res Empty_set (option (chunk * view) * citer7 * list warning7) :=
  match ci7_data it with
  | [] =>
    if negb (ci7_checked it) then
      Ok (None, {| ci7_data := []; ci7_pos := ci7_pos it; ci7_remaining := ci7_remaining it; ci7_checked := true |},
          if negb (ci7_remaining it =? 0) then [W7ChunksNumChunks] else [])
    else Ok (None, it, [])
  | _ :: _ =>
    match read_chunk_header7 (ci7_data it) with
    | (None, ws) => Ok (None, excess7 it, ws ++ [W7ChunksUnknownData])
    | (Some (header, sequence, hlen, rest), ws) =>
      let vital := match sequence with
                   | Some s => Some (s, land_ne0 (ch7_flags header) CHUNKFLAG_RESEND)
                   | None => None
                   end in
      let size := ch7_size header in
      if Z.of_nat (length rest) <? size then Ok (None, excess7 it, ws ++ [W7ChunksUnknownData]) else
      let n := Z.to_nat size in       (* 0 <= size <= rest.len() *)
      if ci7_remaining it - 1 <? i32_min then Panic site7_chunks_remaining_overflow else
      Ok (Some ({| ch_data := firstn n rest; ch_vital := vital |},
                {| v_src := Input; v_off := (ci7_pos it + hlen)%nat; v_len := n |}),
          {| ci7_data := skipn n rest; ci7_pos := (ci7_pos it + hlen + n)%nat;
             ci7_remaining := ci7_remaining it - 1; ci7_checked := ci7_checked it |},
          ws)
    end
  end.

Fixpoint chunks_all7_loop (k : nat) (it : citer7)
  : res Empty_set (list (chunk * view) * list warning7 * citer7) :=
  match k with
  | O => OutOfFuel
  | S k' =>
    match chunks_next7 it with
    | Ok (None, it', ws) => Ok ([], ws, it')
    | Ok (Some c, it', ws) =>
      match chunks_all7_loop k' it' with
      | Ok (cs, ws', it'') => Ok (c :: cs, ws ++ ws', it'')
      | r => r
      end
    | Err e => Err e
    | Panic s => Panic s
    | OutOfFuel => OutOfFuel
    end
  end.

Definition chunks_iter_all7 (payload : bytes) (num_chunks : Z)
  : res Empty_set (list (chunk * view) * list warning7 * citer7) :=
  chunks_all7_loop (S (Nat.div2 (length payload))) (chunks_new7 payload num_chunks).

(* ================= read side ================= *)

Definition header_of7 (bs : bytes) : option (PacketHeader7 * list warning7 * bytes) :=
  match PacketHeaderPacked7_of_bytes bs with
  | None => None
  | Some (hp, payload) => let (h, ws) := PacketHeaderPacked7_unpack_warn hp in Some (h, ws, payload)
  end.

Definition needs_decompression7 (bs : bytes) : bool :=
  if Z.of_nat (length bs) >? MAX_PACKETSIZE then false else
  match header_of7 bs with
  | None => false
  | Some (h, _, _) =>
    negb (land_ne0 (ph7_flags h) PACKETFLAG_CONNLESS) && land_ne0 (ph7_flags h) PACKETFLAG_COMPRESSION
  end.

Definition decompress7 (decomp : HuffC7) (bs : bytes) (cap : nat) : res unit bytes :=
  if Z.of_nat cap <? MAX_PACKETSIZE then Panic site7_decompress_small_buffer else
  if negb (needs_decompression7 bs) then Panic site7_decompress_not_needed else
  match header_of7 bs with
  | None => Panic site7_decompress_unwrap
  | Some (h, _, payload) =>
    if land_ne0 (ph7_flags h) PACKETFLAG_CONNLESS then Panic site7_decompress_not_needed else
    if negb (land_ne0 (ph7_flags h) PACKETFLAG_COMPRESSION) then Panic site7_decompress_not_needed else
    let fake := {| ph7_flags := Z.land (ph7_flags h) (Z.lxor PACKETFLAG_COMPRESSION 255);
                   ph7_ack := ph7_ack h; ph7_num_chunks := ph7_num_chunks h; ph7_token := ph7_token h |} in
    match PacketHeader7_pack fake with
    | Ok fp =>
      let hb := PacketHeaderPacked7_as_bytes fp in
      if (cap <? length hb)%nat then Panic site7_decompress_unwrap else
      match decomp payload (cap - length hb)%nat with
      | None => Err tt
      | Some d => Ok (hb ++ d)
      end
    | Err e => match e with end
    | Panic s => Panic s
    | OutOfFuel => OutOfFuel
    end
  end.

Definition decompress_if_needed7 (decomp : HuffC7) (bs : bytes) (cap : nat) : res unit (option bytes) :=
  if Z.of_nat cap <? MAX_PACKETSIZE then Panic site7_decompress_small_buffer else
  if negb (needs_decompression7 bs) then Ok None else
  match decompress7 decomp bs cap with
  | Ok s => Ok (Some s)
  | Err e => Err e
  | Panic s => Panic s
  | OutOfFuel => OutOfFuel
  end.

Definition rres7 := (list warning7 * res rderr7 (packet7 * list view))%type.

(* the control-message part of read_impl; p = payload after the packet header,
   nbytes = bytes.len() of the datagram *)
Definition read_control7 (ws : list warning7) (h : PacketHeader7) (nbytes : nat) (p : slice) : rres7 :=
  let flags := ph7_flags h in
  let ack := ph7_ack h in
  let tok := ph7_token h in
  let ws := ws ++ (if negb (ph7_num_chunks h =? 0) then [W7ControlNumChunks] else []) in
  let ws := ws ++ (if land_ne0 flags PACKETFLAG_COMPRESSION || land_ne0 flags PACKETFLAG_REQUEST_RESEND
                   then [W7ControlFlags] else []) in
  match s_data p with
  | [] => (ws, Err E7ControlMissing)
  | control :: rest =>
    let pr := slice_skip 1 p in
    let done := fun (ws : list warning7) (c : control7) (vs : list view) =>
      (ws, Ok (P7Connected ack tok (P7Control c), vs)) in
    (* the closure `empty` *)
    let empty_ws := if negb (length rest =? 0)%nat then [W7ControlExcessData] else [] in
    (* the closure `token(warn, warn_more)` *)
    let token_r := fun (warn_more : bool) (k : token -> list warning7 -> rres7) =>
      if (length rest <? 4)%nat then (ws, Err E7ControlResponseTokenMissing) else
      k (firstn 4 rest) (if warn_more && negb (length rest =? 4)%nat then [W7ControlExcessData] else []) in
    if control =? CTRLMSG_KEEPALIVE then done (ws ++ empty_ws) C7KeepAlive []
    else if control =? CTRLMSG_CONNECT then
      token_r true (fun rt w => done (ws ++ w) (C7Connect rt) [])
    else if control =? CTRLMSG_ACCEPT then done (ws ++ empty_ws) C7Accept []
    else if control =? CTRLMSG_CLOSE then
      let nul := Nat.min (find_nul rest) (Z.to_nat CTRLMSG_CLOSE_REASON_LENGTH) in
      let ws := ws ++
        (if negb (length rest =? 0)%nat && negb (nul + 1 =? length rest)%nat then
           if (nul + 1 <? length rest)%nat then [W7ControlExcessData] else [W7ControlNulTermination]
         else []) in
      let reason := slice_take nul pr in
      done ws (C7Close (s_data reason)) [view_of reason]
    else if control =? CTRLMSG_TOKEN then
      if bytes_eqb tok TOKEN_NONE && (Z.of_nat nbytes <? TOKEN_REQUEST_PACKET_SIZE)
      then (ws, Err E7ControlTokenRequestTooShort) else
      token_r (negb (bytes_eqb tok TOKEN_NONE)) (fun rt w => done (ws ++ w) (C7Token rt) [])
    else (ws, Err E7UnknownControl)
  end.

(* read_impl, connectionless branch *)
Definition read_connless7 (ws : list warning7) (bs : bytes) : rres7 :=
  match PacketHeaderConnlessPacked7_of_bytes bs with
  | None => (ws, Err E7TooShort)
  | Some (hcp, cpayload) =>
    let (hc, ws2) := PacketHeaderConnlessPacked7_unpack_warn hcp in
    let ws := ws ++ ws2 in
    if negb (phc7_version hc =? CONNLESS_VERSION) then (ws, Err E7UnknownConnlessVersion) else
    let cf := phc7_flags hc in
    let ws := ws ++ (if land_ne0 cf PACKETFLAG_COMPRESSION || land_ne0 cf PACKETFLAG_REQUEST_RESEND
                        || land_ne0 cf PACKETFLAG_CONTROL then [W7ConnlessFlags] else []) in
    let pl := {| s_src := Input; s_off := Z.to_nat HEADER_SIZE_CONNLESS; s_data := cpayload |} in
    (ws, Ok (P7Connless cpayload (phc7_token hc) (phc7_response_token hc), [view_of pl]))
  end.

Definition payload_slice7 (decomp : HuffC7) (bs : bytes) (cap : option nat) (flags : Z) (payload : bytes)
  : res rderr7 slice :=
  if land_ne0 flags PACKETFLAG_COMPRESSION then
    match cap with
    | None => Panic site7_read_no_buffer
    | Some c =>
      match decompress7 decomp bs c with
      | Ok scratch =>
        match PacketHeaderPacked7_of_bytes scratch with
        | Some (_, pl) => Ok {| s_src := Scratch; s_off := Z.to_nat HEADER_SIZE; s_data := pl |}
        | None => Panic site7_decompress_unwrap
        end
      | Err _ => Err E7Compression
      | Panic s => Panic s
      | OutOfFuel => OutOfFuel
      end
    end
  else Ok {| s_src := Input; s_off := Z.to_nat HEADER_SIZE; s_data := payload |}.

(* read_impl from the size check of the (decompressed) payload on; nbytes = bytes.len() *)
Definition read_payload7 (ws : list warning7) (h : PacketHeader7) (nbytes : nat) (p : slice) : rres7 :=
  let flags := ph7_flags h in
  if Z.of_nat (length (s_data p)) >? MAX_PACKETSIZE - HEADER_SIZE then (ws, Err E7Compression) else
  if land_ne0 flags PACKETFLAG_CONTROL then read_control7 ws h nbytes p
  else
    let request_resend := land_ne0 flags PACKETFLAG_REQUEST_RESEND in
    let ws := ws ++ (if (ph7_num_chunks h =? 0) && negb request_resend then [W7ChunksNoChunks] else []) in
    (ws, Ok (P7Connected (ph7_ack h) (ph7_token h) (P7Chunks request_resend (ph7_num_chunks h) (s_data p)),
             [view_of p])).

Definition read_impl7 (decomp : HuffC7) (bs : bytes) (cap : option nat) : rres7 :=
  if match cap with Some c => Z.of_nat c <? MAX_PACKETSIZE | None => false end
  then ([], Panic site7_read_small_buffer) else
  if Z.of_nat (length bs) >? MAX_PACKETSIZE then ([], Err E7TooLong) else
  match header_of7 bs with
  | None => ([], Err E7TooShort)
  | Some (h, ws, payload) =>
    if land_ne0 (ph7_flags h) PACKETFLAG_CONNLESS then read_connless7 ws bs else
    match payload_slice7 decomp bs cap (ph7_flags h) payload with
    | Err e => (ws, Err e)
    | Panic s => (ws, Panic s)
    | OutOfFuel => (ws, OutOfFuel)
    | Ok p => read_payload7 ws h (length bs) p
    end
  end.

Definition read7 (decomp : HuffC7) (bs : bytes) (cap : nat) : rres7 :=
  read_impl7 decomp bs (Some cap).

Definition read_nodecomp7 (bs : bytes) : rres7 :=
  read_impl7 (fun _ _ => None) bs None.

(* ================= predicates used by the property theorems ================= *)

Definition K05_7 (p : packet7) : bool :=
  match p with
  | P7Connected _ _ (P7Chunks false n _) => n =? 0
  | _ => false
  end.

(* K06: connectionless payload above MAX_PAYLOAD (the reader accepts MAX_PACKETSIZE - 9 = 1391 bytes) *)
Definition K06_7 (p : packet7) : bool :=
  match p with
  | P7Connless payload _ _ => Z.of_nat (length payload) >? MAX_PAYLOAD
  | _ => false
  end.

(* K06T: a Connect / Token control message whose response token is TOKEN_NONE: the reader
   returns it, the writer asserts response_token != TOKEN_NONE *)
Definition K06T_7 (p : packet7) : bool :=
  match p with
  | P7Connected _ _ (P7Control (C7Connect rt)) => bytes_eqb rt TOKEN_NONE
  | P7Connected _ _ (P7Control (C7Token rt)) => bytes_eqb rt TOKEN_NONE
  | _ => false
  end.

Definition expressible7 (p : packet7) : bool :=
  match p with
  | P7Connless payload tok rtok =>
    (Z.of_nat (length payload) <=? MAX_PACKETSIZE - HEADER_SIZE_CONNLESS) && token_ok tok && token_ok rtok
  | P7Connected ack tok ty =>
    (0 <=? ack) && (ack <? 1024) && token_ok tok
    && match ty with
       | P7Chunks _ n payload =>
         (0 <=? n) && (n <? 256) && (Z.of_nat (length payload) <=? MAX_PACKETSIZE - HEADER_SIZE)
       | P7Control (C7Close reason) =>
         negb (has_nul reason) && (Z.of_nat (length reason) <=? CTRLMSG_CLOSE_REASON_LENGTH)
       | P7Control (C7Connect rt) => token_ok rt
       | P7Control (C7Token rt) => token_ok rt
       | P7Control _ => true
       end
  end.

Definition packet_bytes_ok7 (p : packet7) : bool :=
  match p with
  | P7Connless payload tok rtok => bytes_ok payload && bytes_ok tok && bytes_ok rtok
  | P7Connected _ tok ty =>
    bytes_ok tok
    && match ty with
       | P7Chunks _ _ payload => bytes_ok payload
       | P7Control (C7Close reason) => bytes_ok reason
       | P7Control (C7Connect rt) => bytes_ok rt
       | P7Control (C7Token rt) => bytes_ok rt
       | P7Control _ => true
       end
  end.

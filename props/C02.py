SPEC = {
    "claimed": True,
    "gen": [],
    "theorems": ['C02_calls_return6', 'C02_calls_return7', 'C02_resend_terminates', 'C02_deadline_finite6', 'C02_deadline_finite7', 'C02_catch_up', 'C02_catch_up_reachable6', 'C02_nonvacuous',
                 'C02_heal_schedule6', 'C02_heal6', 'C02_tokens_agree6', 'C02_heal_reachable6', 'C02_heal_nonvacuous', 'C02_heal_demo_run',
                 'C02_heal_schedule7', 'C02_heal7', 'C02_tokens_agree7', 'C02_heal_reachable7', 'C02_heal_nonvacuous7', 'C02_heal_demo_run7'],
    "props_files": ["C02", "C02heal", "C02heal7"],
    "allowed_axioms": [],
    "extract": {
        "LibTw2.Model.Conn6": ["step", "needs_tick", "conn6_new"],
        "LibTw2.Model.Conn7": ["step7", "needs_tick7", "conn7_new"],
    },
    "components": [{"bin": "conn", "driver": "drv_conn", "args": ["6,6nt,7", "fair,sender,wrap"], "timeout": {"quick": 900, "thorough": 3000}}],
    "release": False,
    "trusted_base": ["Model/ConnCore.v, Conn6.v, Conn7.v are hand-written from net/src/connection.rs / connection7.rs; datagrams are abstract packet values with structured chunks, their encoded size is tracked in the model; the byte level is Props/C05-C06",
                     "the correspondence feeds the model the packet value the REAL reader returns for each datagram and compares every emitted datagram (parsed by the real reader), event, warning, result, needs_tick and the complete state fingerprint (hook Connection::verif_fingerprint) after every label"],
    "assumptions": ["the send callback never fails (Error = Infallible)", "secure_random eventually yields a usable token (otherwise Token::random itself loops: rand_ok hypothesis)", "clock values stay below 2^63 microseconds", "mid-handshake = Connecting/Pending (0.6), Token/Connecting/Pending (0.7); the passive 0.7 PendingConnect state has nothing to retransmit and reports no deadline", "the real call not returning is observed only by the harness watchdog (8 s): partial by nature"],
    "explanation": 'every call returns (no OutOfFuel/Panic outcome from any reachable state, explicit resend fuel bound) and the reported deadline is finite while active, for ALL histories by induction over the label list; progress (0.6: Props/C02heal.v, 0.7: Props/C02heal7.v, same statements): from EVERY reachable link state with both ends online there is an explicit healing schedule (lose what is in flight, then each side ticks at its deadline and every datagram is delivered exactly once, oldest first) with exactly 3 ticks after which everything submitted is delivered, both queues and packets are empty, no resend is requested and nothing is in flight (C02_heal_reachable6, C02_heal_reachable7); the handshake phase, and progress under every fair schedule rather than this one, are checked by the harness oracle on fair suffixes',
}

SPEC = {
    "claimed": False,
    "gen": ["huffman"],
    "theorems": ["C15_nonvacuous"],
    "allowed_axioms": [],
    "extract": {
        "LibTw2.Model.Demo": ["writer_new", "write_chunk", "write_all", "read_all", "header_view"],
        "LibTw2.Model.DemoHL": ["hwriter_new", "hstep", "hrun", "hread_all", "osize_of"],
        "LibTw2.Model.Snap": ["uuid_of_bytes", "uuid_to_bytes"],
    },
    "components": [{"bin": "demo", "driver": "drv_demo", "timeout": {"quick": 900, "thorough": 3000}}],
    "release": False,
    "rule": "see components.demo.rule",
    "trusted_base": [],
    "assumptions": [],
    "explanation": "",
}

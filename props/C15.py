SPEC = {
    "claimed": True,
    "gen": ["huffman"],
    "theorems": ["C15_raw", "C15_header", "C15_chunk_header", "C15_tick_encoding", "C15_chunk",
                 "C15_K15_refuted", "C15_K15H_refuted",
                 "C15_refuse_tick", "C15_accept_tick", "C15_raw_tick_panics",
                 "C15_transport", "C15_typed", "C15_K15W_refuted", "C15_nonvacuous"],
    "allowed_axioms": [],
    "extract": {
        "LibTw2.Model.Demo": ["writer_new", "write_chunk", "write_all", "read_all", "header_view"],
        "LibTw2.Model.DemoHL": ["hwriter_new", "hstep", "hrun", "hread_all", "osize_of"],
        "LibTw2.Model.Snap": ["uuid_of_bytes", "uuid_to_bytes"],
    },
    "components": [{"bin": "demo", "driver": "drv_demo", "timeout": {"quick": 900, "thorough": 3000}}],
    "release": False,
    "rule": "see components.demo.rule",
    "trusted_base": [
        "Model/Demo.v is hand-written from demo/src/format.rs (header layout as the binrw 0.11.1 attributes lay it "
        "out, TickMarker::new, ChunkHeader::read/write), writer.rs and reader.rs; binrw itself is not modelled: the "
        "bytes it writes and the error kind it reports for every truncation / bad magic / failed assert are compared "
        "with the model on every case (file bytes byte for byte)",
        "Model/DemoHL.v is hand-written from demo/src/ddnet/writer.rs and reader.rs on top of Model/Snap.v (C09-C11's "
        "snapshot model); the typed layer is cut at gamenet's interface: an object is (obj_type_id(), id, encode()), "
        "a game message is the bytes msg.encode writes, P::obj_size is a table passed with every case",
        "the Huffman decoder used by the model reverses its output in linear time (Proofs/DemoBase.demo_decompress_eq "
        "proves it equal to Model/Huffman.decompress)",
        "in-memory files only (io::Cursor): write errors are not modelled, read errors are the end of the data",
    ],
    "assumptions": [
        "C15_raw: the header meets winput_ok (bytes, NUL-free strings shorter than their capacity, 32-byte digest, "
        "u32 checksum, length >= 0 - K15H otherwise), ticks are i32, payloads are bytes, no payload is longer than "
        "MAX_SNAPSHOT_SIZE = 65536 bytes (K15 otherwise), and the writer accepted every call (write_all = Ok: ticks "
        "increase strictly, every compressed payload is below 65536 bytes, every int-packed message is at most 65536 bytes)",
        "C15_transport: no call of the history panics (the results may be Ok or any Err)",
        "C15_typed: every call is accepted or is a refused tick (accepted_res; the other refusals are K15W), objects "
        "have type ids / ids in range and i32 words (hop_typed_ok); an object is (obj_type_id(), id, encode()) and a "
        "message its encoded bytes - the SnapObj / Game codecs are C14's and are covered here by the harness only",
    ],
    "explanation": "Raw layer proved for all headers and all chunk sequences by induction over the chunk list with the "
                   "writer's prev_tick and the reader's current_tick in step; it uses C07's round trip on the built-in "
                   "table (decidably well-formed) and C08's varint round trip. Chunk headers: every delta 0..31, every "
                   "absolute i32 tick, every size 0..65535 with the three encodings' lengths (boundaries 29/30, 255/256); "
                   "inline ticks exactly for non-key-frame gaps 1..31. High-level writer: a tick <= last_tick returns "
                   "TooLowTickNumber with the state unchanged and nothing written; larger ticks are never refused for "
                   "their number. Typed layer (an object is its type id, id and encode() words): by induction "
                   "over the history with the invariants 'the reader's snapshot holds the same items and registry as the "
                   "writer's' and 'the recycled builder holds nothing but its registry' (through Builder::add_item, "
                   "Snap::write/read, Delta::create/write/read/read_with_delta, Snap::recycle; key frames by the 250-tick "
                   "rule), the reader reports per accepted write_snap exactly Tick and a snapshot whose items are the "
                   "given objects (a permutation), per write_msg the padded bytes, nothing for refused ticks, no "
                   "warnings. The harness drives the real typed API (objects of 36 DDNet types incl. 16 UUID types "
                   "appearing/changing/vanishing over several key-frame intervals, messages) and compares file bytes, "
                   "read-back and object sets.",
    "level_text": "proof for all inputs at the raw layer, for the tick refusal and for the typed layer (C15_typed: objects as "
                  "(type id, id, encode() words)); the SnapObj / Game codecs are C14's and are covered here by differential "
                  "testing + oracle",
    "level_note": "Known findings: K15 (raw Writer accepts payloads above 65536 bytes that the Reader rejects - "
                  "C15_K15_refuted), K15H (Writer::new accepts a NUL inside a string / a negative length - "
                  "C15_K15H_refuted), K15W (errors of DemoWriter other than the tick refusal corrupt its state - "
                  "C15_K15W_refuted). Fixed in /repo: #13 (repeated tick panicked) and the stale extended-type registry "
                  "(builder recycled from the snapshot before the last: Delta::create panicked on world histories "
                  "with UUID-typed objects).",
}

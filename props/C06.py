_EXTRACT = {
    "LibTw2.Model.Packet6": ["write6_full", "read6", "read_nodecomp6", "write_chunk6_full", "chunks_iter_all6",
                             "chunks_next6", "is_initial6", "decompress_if_needed6", "K05_6", "K06_6", "expressible6"],
    "LibTw2.Model.Packet7": ["write7_full", "read7", "read_nodecomp7", "write_chunk7_full", "chunks_iter_all7",
                             "chunks_next7", "decompress_if_needed7", "K05_7", "K06_7", "K06T_7", "expressible7"],
    "LibTw2.Model.PacketBase": ["utf8_valid"],
    "LibTw2.Model.PacketInst": ["tw_comp", "tw_decomp"],
    "LibTw2.Gen.Bits6": ["PacketHeaderPacked6_unpack_warn", "PacketHeader6_pack", "ChunkHeaderPacked6_unpack_warn",
                         "ChunkHeader6_pack", "ChunkHeaderVitalPacked6_unpack_warn", "ChunkHeaderVital6_pack"],
    "LibTw2.Gen.Bits7": ["PacketHeaderPacked7_unpack_warn", "PacketHeader7_pack",
                         "PacketHeaderConnlessPacked7_unpack_warn", "PacketHeaderConnless7_pack",
                         "ChunkHeaderPacked7_unpack_warn", "ChunkHeader7_pack",
                         "ChunkHeaderVitalPacked7_unpack_warn", "ChunkHeaderVital7_pack"],
}

SPEC = {
    "claimed": True,
    "gen": ["consts", "bitfields", "huffman"],
    "theorems": ["C06_total6", "C06_total7", "C06_small_scratch_panics", "C06_other_entry_points", "C06_views_in_bounds6", "C06_views_in_bounds7",
                 "C06_chunks_total6", "C06_chunks_total7", "C06_accept_rewrite6", "C06_accept_rewrite7", "C06_accept_rewrite6_huffman", "C06_accept_rewrite7_huffman",
                 "C06_views_in_bounds_huffman",
                 "C06_K06_refuted", "C06_K06T_refuted", "C06_nonvacuous"],
    "allowed_axioms": [],
    "extract": _EXTRACT,
    "components": [{"bin": "packet", "driver": "drv_packet", "args": ["c06"],
                    "timeout": {"quick": 900, "thorough": 3000}}],
    "release": False,
    # coqchk has no VM: re-checking the 2^16-point vm_compute sweeps of the header proofs takes it far longer than
    # 10 minutes while it holds the shared build lock, so the thorough tier does not run it for this property
    "coqchk": False,
    "rule": "see components.packet.rule",
    "trusted_base": [
        "tools/gen_consts.py, tools/gen_bitfields.py (constants, enums, layouts, bit-field leaf functions translated from the working tree)",
        "Model/Packet6.v, Model/Packet7.v hand-written from read_impl / has_token_heuristic / decompress_impl / ChunksIter::next_warn, "
        "tied to the code by running both on the same hostile inputs (every observable incl. warnings in order and the "
        "provenance (buffer, offset, length) of every returned slice, derived from pointers on the Rust side)",
        "Model/PacketBase.utf8_valid re-implements str::from_utf8(..).is_ok(); compared with the real one on three-byte strings "
        "(all 2^24 in the thorough tier)",
        "the Huffman decoder is an arbitrary function in the totality theorems; the bounds theorem assumes it never returns more "
        "than the capacity it was given; accept=>rewrite assumes the coder round trip (C07)",
        "real memory safety of the zerocopy views and of BufferRef is outside the model (observed by the harness only)",
    ],
    "assumptions": [
        "input elements are bytes (bytes_ok)", "scratch buffer >= MAX_PACKETSIZE (the code asserts it; smaller => panic, pinned)",
        "decoder respects its capacity (views theorem); coder round trip (accept=>rewrite theorem)",
        "chunk iterator: payload shorter than 2^31 bytes (the i32 chunk counter)",
    ],
    "explanation": "read is total for EVERY byte string, hint and scratch size >= 1400 (no fuel argument: the only loop, the "
                   "chunk heuristic, is bounded by length/2+1 and shown never to exhaust it); every view lies inside the input "
                   "or the scratch buffer; every accepted value is inside the writer's limits, is written again and read back "
                   "equal, outside K06 (connless payload > MAX_PAYLOAD, both versions) and K06T (0.7 response token ffffffff: "
                   "write asserts) which are proved to be real (accepted by read, refused by write).",
    "level_text": "machine-checked proof about an executable model regenerated/validated against the code on every run",
    "level_note": "full, with known-finding classes K06 and K06T",
}

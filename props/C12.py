SPEC = {
    "claimed": False,
    "gen": [],
    "theorems": ["C12_exactly_once_refuted", "C12_chunks_total_refuted"],
    "allowed_axioms": [],
    "extract": {"LibTw2.Model.Receiver": ["delta_chunks", "recv_step", "new_receiver", "reset"]},
    "components": [{"bin": "receiver", "driver": "drv_receiver"}],
    "release": False,
}

SPEC = {
    "claimed": True,
    "gen": [],
    "theorems": ["C12_chunks", "C12_exactly_once", "C12_every_answer", "C12_incomplete_never_delivers",
                 "C12_at_most_once", "C12_old_ticks_harmless", "C12_newer_replaces", "C12_no_panic",
                 "C12_nonvacuous"],
    "allowed_axioms": [],
    "extract": {"LibTw2.Model.Receiver": ["delta_chunks", "recv_step", "new_receiver", "reset"]},
    "components": [{"bin": "receiver", "driver": "drv_receiver",
                    "timeout": {"quick": 600, "thorough": 3000}}],
    "release": False,
    "rule": "see components.receiver.rule",
    "trusted_base": [
        "Model/Receiver.v is hand-written from snapshot/src/receiver.rs (DeltaReceiver), "
        "snapshot/src/snap.rs (delta_chunks, DeltaChunks::next) and gamenet/snap/src/lib.rs (Snap, SnapSingle, "
        "SnapEmpty, MAX_SNAPSHOT_PACKSIZE); VecMap<Range<u32>> is a key-sorted association list, Vec<u8> a list, "
        "lengths and offsets are Z; the delta data is opaque bytes",
        "the harness compares data longer than 24 bytes by length + FNV-1a-32 fingerprint (the oracle on the "
        "real code compares the full bytes)"],
    "assumptions": [
        "the receiver is in a state no call can panic from (wf: reachable from DeltaReceiver::new() by messages "
        "whose data field is at most 2^26 bytes, theorem C12_no_panic) and has not yet accepted the tick of the "
        "transfer (before)",
        "messages interleaved with the transfer are of strictly older ticks (C12_exactly_once); for arbitrary "
        "interleaving, including newer ticks and hostile messages, C12_at_most_once and C12_newer_replaces hold "
        "without that assumption",
        "base tick is an i32 (tick and crc are unconstrained); data length <= 32*900",
        "reset() is not called during the transfer"],
    "explanation": "theorems are by induction over the schedule (list of part numbers and foreign messages), for "
                   "every data length <= 28800, every order, every duplication pattern; the model is tied to the "
                   "Rust code by running both on the same schedules, message by message",
}

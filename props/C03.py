SPEC = {
    "claimed": True,
    "gen": ["consts", "bitfields", "huffman"],
    "props_files": ["C03", "C03v7"],
    "theorems": ['C03_inert6', 'C03_inert6_bytes', 'C03_garbage6', 'C03_inert7', 'C03_inert7_connless', 'C03_exception7', 'C03_tokens_not_reserved6', 'C03_tokens_not_reserved7', 'C03_nonvacuous', 'C03_inert7_bytes', 'C03_exception7_bytes', 'C03v7_nonvacuous'],
    "allowed_axioms": [],
    "extract": {
        "LibTw2.Model.Conn6": ["step", "needs_tick", "conn6_new"],
        "LibTw2.Model.Conn7": ["step7", "needs_tick7", "conn7_new"],
    },
    "components": [{"bin": "conn", "driver": "drv_conn", "args": ["6,7", "hostile"], "timeout": {"quick": 900, "thorough": 3000}}],
    "release": False,
    "trusted_base": ["Model/ConnCore.v, Conn6.v, Conn7.v are hand-written from net/src/connection.rs / connection7.rs; datagrams are abstract packet values with structured chunks, their encoded size is tracked in the model; the byte level is Props/C05-C06",
                     "the correspondence feeds the model the packet value the REAL reader returns for each datagram and compares every emitted datagram (parsed by the real reader), event, warning, result, needs_tick and the complete state fingerprint (hook Connection::verif_fingerprint) after every label"],
    "assumptions": ["the datagram is what the packet reader returns (C05/C06); a reader error is the label feed-garbage"],
    "explanation": 'for every state with a fixed token and every connection-oriented datagram value without exactly that token, feed returns the identical state, environment, no event and no datagram (0.7: except the explicit unauthenticated token request in PendingConnect, which is answered without state change)',
}

SPEC = {
    "claimed": False,
    "gen": [],
    "theorems": ["C09_apply_create", "C09_wire", "C09_end_to_end", "C09_K09_panics", "C09_nonvacuous"],
    "allowed_axioms": [],
    "extract": {
        "LibTw2.Model.Snap": ['add_item', 'raw_items', 'raw_item', 'crc', 'raw_write_to_ints', 'raw_write_bytes', 'raw_read_from_ints', 'raw_read_bytes', 'create_raw', 'raw_read_with_delta', 'k09', 'delta_write_to_ints', 'delta_write_bytes', 'delta_read_from_ints', 'delta_read_bytes', 'builder_new', 'builder_add', 'builder_finish', 'snap_recycle', 'snap_items', 'snap_item', 'snap_read_from_ints', 'snap_read_bytes', 'snap_read_with_delta', 'raw_empty', 'snap_empty', 'delta_empty', 'uuid_of_bytes', 'uuid_to_bytes', 'key_to_raw_type_id', 'key_to_id'],
    },
    "components": [{"bin": "snap", "driver": "drv_snap", "args": ["c09"], "timeout": {"quick": 900, "thorough": 3000}}],
    "release": False,
    "rule": "see components.snap.rule",
    "trusted_base": [],
    "assumptions": [],
    "explanation": "",
}

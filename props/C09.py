SPEC = {
    "claimed": True,
    "gen": [],
    "theorems": ['C09_apply_create', 'C09_wire', 'C09_end_to_end', 'C09_K09_panics', 'C09_nonvacuous'],
    "allowed_axioms": [],
    "extract": {
        "LibTw2.Model.Snap": ['add_item', 'raw_items', 'raw_item', 'crc', 'raw_write_to_ints', 'raw_write_bytes', 'raw_read_from_ints', 'raw_read_bytes', 'create_raw', 'raw_read_with_delta', 'k09', 'delta_write_to_ints', 'delta_write_bytes', 'delta_read_from_ints', 'delta_read_bytes', 'builder_new', 'builder_add', 'builder_finish', 'snap_recycle', 'snap_items', 'snap_item', 'snap_read_from_ints', 'snap_read_bytes', 'snap_read_with_delta', 'raw_empty', 'snap_empty', 'delta_empty', 'uuid_of_bytes', 'uuid_to_bytes', 'key_to_raw_type_id', 'key_to_id'],
        "LibTw2.Model.SnapRef": ['ref_builder_ints', 'ref_create_delta', 'ref_sizes', 'ref_sizes_ok'],
    },
    "components": [{"bin": "snap", "driver": "drv_snap", "args": ["c09"], "timeout": {"quick": 1200, "thorough": 6000}}],
    "release": False,
    "rule": "see components.snap.rule",
    "trusted_base": ['Model/Snap.v is hand-written from snapshot/src/snap.rs and snapshot/src/format.rs (RawSnap as a key-sorted association list + flat buffer, every assert/unwrap/slice/debug overflow an explicit Panic site); it is tied to the code by the component `snap` (same scripts through the real crate and the extracted model)', "write_impl is modelled as 'all ints, then the capacity check' (a CapacityError and a later panic can only compete on snapshots that break raw_ok, which never happens: snap_ints_spec)", 'varints: Model/Varint.v and its C08 theorems (read_write_int, read_int_arith, read_int_a_consumes)'],
    "assumptions": ['A and B satisfy raw_ok (the state invariant of RawSnap: sorted i32 keys, ranges tile the buffer, <= 1024 items, <= 64 KiB) - every value the public API can produce does (C11: accepted snapshots are `good`)', 'the pair is outside K09 (no key present in both with different lengths): known finding, Delta::create panics there (C09_K09_panics)', 'for the wire clauses with a table of pre-agreed sizes: every item of B whose type is in the table has that size (sizes_respected) - otherwise Delta::write asserts; explicit sizes always work', 'the DDNet reference clauses (reference delta applied here yields B; reference builder serialises to the same ints) are established by the correspondence/oracle run only (the C++ source is not modelled): types <= 0x7fff, <= 64 keys per hash bucket, delta <= 16384 ints'],
    "explanation": 'C09_apply_create / C09_end_to_end quantify over all raw_ok snapshots A, B outside K09: create, (write, read in ints and bytes,) apply gives a snapshot with the same items in the same order, the same lookups and the same crc, without a warning; C09_wire over all delta_ok deltas and size tables. Proved by induction over the key-sorted maps via the representation invariant `rep` (Proofs/SnapRep.v). The model is tied to snapshot/src by running both on the same scripts (exhaustive one-key pairs, random pairs up to the limits) and the statement is asserted on the real code incl. the bundled DDNet reference.',
}

_EXTRACT = {
    "LibTw2.Model.Packet6": ["write6_full", "read6", "read_nodecomp6", "write_chunk6_full", "chunks_iter_all6",
                             "chunks_next6", "is_initial6", "decompress_if_needed6", "K05_6", "K06_6", "expressible6"],
    "LibTw2.Model.Packet7": ["write7_full", "read7", "read_nodecomp7", "write_chunk7_full", "chunks_iter_all7",
                             "chunks_next7", "decompress_if_needed7", "K05_7", "K06_7", "K06T_7", "expressible7"],
    "LibTw2.Model.PacketBase": ["utf8_valid"],
    "LibTw2.Model.PacketInst": ["tw_comp", "tw_decomp"],
    "LibTw2.Gen.Bits6": ["PacketHeaderPacked6_unpack_warn", "PacketHeader6_pack", "ChunkHeaderPacked6_unpack_warn",
                         "ChunkHeader6_pack", "ChunkHeaderVitalPacked6_unpack_warn", "ChunkHeaderVital6_pack"],
    "LibTw2.Gen.Bits7": ["PacketHeaderPacked7_unpack_warn", "PacketHeader7_pack",
                         "PacketHeaderConnlessPacked7_unpack_warn", "PacketHeaderConnless7_pack",
                         "ChunkHeaderPacked7_unpack_warn", "ChunkHeader7_pack",
                         "ChunkHeaderVitalPacked7_unpack_warn", "ChunkHeaderVital7_pack"],
}

SPEC = {
    "claimed": True,
    "gen": ["consts", "bitfields", "huffman"],
    "theorems": ["C05_hdr_pack_unpack", "C05_hdr_unpack_pack", "C05_warn_iff_noncanonical",
                 "C05_read_write6", "C05_K05_exact6", "C05_read_write7", "C05_K05_exact7", "C05_read_write6_huffman", "C05_read_write7_huffman",
                 "C05_chunks_roundtrip6", "C05_chunks_roundtrip7", "C05_nonvacuous"],
    "allowed_axioms": [],
    "extract": _EXTRACT,
    "components": [{"bin": "packet", "driver": "drv_packet", "args": ["c05"],
                    "timeout": {"quick": 600, "thorough": 3000}}],
    "release": False,
    # coqchk has no VM: re-checking the 2^16-point vm_compute sweeps of the header proofs takes it far longer than
    # 10 minutes while it holds the shared build lock, so the thorough tier does not run it for this property
    "coqchk": False,
    "rule": "see components.packet.rule",
    "trusted_base": [
        "tools/gen_consts.py, tools/gen_bitfields.py: the constants, enums, struct layouts and the pack / unpack_warn "
        "leaf functions of protocol.rs and protocol7.rs are translated from the working tree on every run "
        "(fail closed on unknown syntax); the header theorems are re-checked over whatever masks and shifts the code has now",
        "Model/Packet6.v, Model/Packet7.v are hand-written from Packet::write / read_impl / decompress_impl / "
        "ControlPacket::write / ChunksIter / write_chunk and tied to the code by running both on the same cases",
        "the Huffman coder is a parameter of the packet models; C05_read_write6/7 state its round trip as an explicit "
        "hypothesis, C05_read_write6_huffman/7_huffman instantiate it with Model/Huffman.v over the regenerated built-in table "
        "and discharge the hypothesis with C07's round-trip lemma (Model/PacketInst.v, Proofs/PacketInstProofs.v); in the "
        "correspondence run the driver is handed the real coder's answers for exactly the calls the packet layer makes and, for "
        "inputs up to 160 bytes, also runs the extracted Huffman model and insists that both agree",
    ],
    "assumptions": [
        "coder round trip: comp x c = Some y -> length x <= c' -> decomp y c' = Some x (hypothesis of C05_read_write6/7)",
        "the reader is told the true token mode (0.6) and is given a scratch buffer of >= 1400 bytes",
        "expressible: ack < 1024, num_chunks < 256, tokens are 4 bytes, chunk payload (+ token) <= 1397 / 1393 bytes, "
        "close reason NUL-free and <= 127 bytes, connless payload within what fits a datagram",
    ],
    "explanation": "Header theorems: every in-range field tuple and every canonical bit pattern of all seven header "
                   "types (2^24 0.6 packet headers, both chunk header forms of both versions, 0.7 packet and connless "
                   "headers with arbitrary tokens), by vm_compute sweeps of the at most two interacting bytes lifted over "
                   "the pass-through bytes. Packet theorems: for every expressible value outside class K05, whatever "
                   "write returns is read back as the same value without warnings, in both compression branches; "
                   "K05 = Chunks(false, 0, _) comes back with exactly [ChunksNoChunks] (pinned).",
    "level_text": "machine-checked proof about an executable model regenerated/validated against the code on every run",
    "level_note": "full, with known-finding class K05; the coder hypothesis is discharged for the built-in table via C07",
}

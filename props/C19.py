SPEC = {
    "claimed": False,
    "gen": [],
    "theorems": ["C19_nonvacuous"],
    "allowed_axioms": [],
    "extract": {"LibTw2.Model.Buffer": ["run_store", "prog_wf", "store_wf"]},
    "components": [{"bin": "buffer", "driver": "drv_buffer"}],
    "release": False,
    "rule": "see components.buffer.rule",
    "trusted_base": [],
    "assumptions": [],
    "explanation": "",
}

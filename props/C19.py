SPEC = {
    "claimed": True,
    "gen": [],
    "theorems": ["C19_never_past_capacity", "C19_capacity_error", "C19_exact", "C19_exact_writes", "C19_reported_stable",
                 "C19_release", "C19_release_nested", "C19_index_safety", "C19_nonvacuous"],
    "allowed_axioms": [],
    "extract": {"LibTw2.Model.Buffer": ["run_store", "prog_wf", "store_wf"]},
    "components": [{"bin": "buffer", "driver": "drv_buffer",
                    "timeout": {"quick": 600, "thorough": 2400},
                    # thorough tier: the same generated programs (a small slice) under Miri with Tree Borrows --
                    # supporting evidence for the memory-safety half, never a substitute for a theorem
                    "miri": {"args": ["--scale", "1", "--sweep", "40", "--stride", "6"], "timeout": 1500}}],
    # the model has the arithmetic of the debug build (overflow checks on); a release build lets
    # `advance(n)` wrap for n near usize::MAX (the caller of that unsafe fn breaks its contract)
    "release": False,
    "rule": "see components.buffer.rule",
    "trusted_base": [
        "Model/Buffer.v is hand-written from buffer/src/{lib,traits}.rs and impls/*.rs (after fix 4eb9351): "
        "memory = one flat byte list per root container, a BufferRef = (offset, length, counter) window into it; "
        "that the unsafe code (slice::from_raw_parts_mut in vec.rs / arrayvec.rs, wildly_unsafe, set_len, the "
        "lifetime-erasing with_buffer signature) performs exactly the accesses of this model is checked only by "
        "the differential run (and rustc's borrow checker for the lifetimes), not proved",
        "the ghost fields of the model (accepted-bytes log, visited view states, report pairs) are computed by "
        "the same interpreter as the observable ones; the harness keeps its own shadow log and compares",
        "readers are modelled by the bytes they hand out in one read call (&[u8], io::Take, io::Chain, BufReader, "
        "Box<&mut _>, io::Repeat, io::Empty, two harness types carrying the crate's ReadBufferMarker)",
    ],
    "assumptions": [
        "MEMORY-SAFETY HALF IS PARTIAL: 'no out-of-bounds or use-after-free access' is a statement about the "
        "compiled program; the theorems prove the index arithmetic that implies in-bounds accesses "
        "(C19_index_safety: every `[a..b]`, checked subtraction and set_len of buffer/src is within bounds in "
        "every reachable state, every byte written lies inside the view's window inside the allocation), "
        "they do not exhibit the machine-level accesses. The thorough tier additionally runs a slice (about 400) of "
        "the same generated programs on the real crate under Miri (Tree Borrows; supporting evidence, not a proof; "
        "it reports e.g. the seeded change C19-arrayvec-spare-ignores-existing-length as Undefined Behavior: dangling "
        "reference beyond the allocation); no address-sanitizer run over the inputs of the OTHER checks is part of this check",
        "use-after-free / lifetime soundness (the slice returned by initialized() outliving the view) rests on "
        "rustc's borrow checking of the crate's signatures; the harness additionally checks that every returned "
        "slice still holds the same bytes after all views are released",
        "debug-build arithmetic (overflow-checks on), as the harness is built",
        "programs use a view only through with_buffer (ToBufferRef::to_buffer_ref called once per intermediate, "
        "as with_buffer does); BufferRef::new's debug_assert and the assert of the private cap_at are then unreachable",
        "ArrayVec capacities are those arrayvec 0.5.2 implements without extra features: 0..32 and 40",
    ],
    "explanation": "theorems are proved by induction over the program tree for every store (any contents, any "
                   "spare capacity, capped any number of times) and every program; the model is tied to "
                   "buffer/src by running the real crate and the extracted model on the same random programs "
                   "(every store kind x capacity 0..40 x pre-existing length, nested three deep, readers, early "
                   "exits, panics of advance) and comparing every observable, and by asserting the property "
                   "statement on the real code against an independent shadow log",
    "level_text": "proof (counting / capacity / release / index arithmetic) + differential test; memory-safety half partial",
    "level_note": "The counting, capacity, release, stability and index-arithmetic statements are machine-checked "
                  "for all stores and programs. The memory-safety half of C19 (no out-of-bounds or use-after-free "
                  "access by the compiled unsafe code) cannot be exhibited by a Gallina model and is only supported: "
                  "proved index arithmetic, rustc's lifetime checking, and the harness exercising the real unsafe "
                  "code. No sanitizer run is wired into ./check; run once by hand (not part of the check): "
                  "`cargo +nightly miri run` of harness/src/bin/buffer.rs (`quick 1 <dir> --scale 5 --sweep 20`, 2941 "
                  "cases) with -Zmiri-disable-stacked-borrows reports no undefined behaviour (no out-of-bounds, "
                  "use-after-free or uninitialised read) and its results equal the model's, and so does the run under "
                  "the Tree Borrows aliasing model (-Zmiri-tree-borrows); with the default "
                  "(experimental) Stacked Borrows aliasing model Miri does flag the crate's design of keeping two "
                  "mutable paths to the same memory: a slice returned earlier by initialized() is invalidated by a "
                  "later unique reborrow of memory containing it (first hit: an ArrayVec<[u8; 1]> store under cap_at, "
                  "the retag covers the whole inline ArrayVec) - an aliasing-model violation, not an "
                  "out-of-bounds or use-after-free access, hence outside the statement of C19.",
}

SPEC = {
    "claimed": True,
    "gen": [],
    "theorems": ["C01_prefix6", "C01_nonvital_genuine6", "C01_ready6", "C01_invariant6", "C01_nonvacuous"],
    "allowed_axioms": [],
    "extract": {
        "LibTw2.Model.Conn6": ["step", "needs_tick", "conn6_new"],
        "LibTw2.Model.Conn7": ["step7", "needs_tick7", "conn7_new"],
    },
    "components": [{"bin": "conn", "driver": "drv_conn", "args": ["6,6nt,7", "link,wrap"],
                    "timeout": {"quick": 900, "thorough": 3000}}],
    "release": False,
    "trusted_base": ["Model/ConnCore.v, Conn6.v, Conn7.v are hand-written from net/src/connection.rs / connection7.rs; Model/Link6.v adds the network (bags of datagrams in flight, delivery without removal = duplication/reordering for free, drop) and ghost histories",
                     "the correspondence feeds the model the packet value the REAL reader returns for each datagram and compares every emitted datagram, event, warning, result, needs_tick and the complete state fingerprint (hook Connection::verif_fingerprint) after every label; the harness oracle asserts the prefix property on the real endpoints, incl. traces that wrap the 10-bit sequence space"],
    "assumptions": ["admissible_run: valid API calls; (W) fewer than 512 vital chunks unacknowledged (queue < 511 before a vital send); (F) a delivered datagram's ack is < 1024 behind the receiver's submit count and none of its vital chunks is >= 768 behind the receiver's delivered count (a packet carries <= 255 chunks); the random source yields a usable token",
                    "one incarnation per connection (no reset inside a trace); datagrams are delivered unmodified (loss, duplication, reordering, delay only)",
                    "0.7: the shared online core (all sequence/ack/resend logic) is covered by the same lemmas (Proofs/LinkCore.v is parametric in the protocol); the 0.7 handshake wrapper is tied by correspondence and the harness oracle only unless Props/C01.v lists C01_prefix7"],
    "explanation": "for EVERY admissible history of two endpoints and an adversarial network (induction over the label list, invariant link_inv), what each side was handed is a prefix of what the other side submitted; delivered non-vital chunks were sent; Ready at most once and only after the acceptor answered",
}

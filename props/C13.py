SPEC = {
    "claimed": True,
    "gen": ["storage"],
    "theorems": ["C13_agree", "C13_stored_agree", "C13_ghosts", "C13_error_no_advance", "C13_ok_answers", "C13_genuine_refusals",
                 "C13_full_snapshot_accepted",
                 "C13_error_never_own_tick_refuted", "C13_manager_total", "C13_no_panic", "C13_K09_panics", "C13_nonvacuous"],
    "allowed_axioms": [],
    "extract": {
        "LibTw2.Model.Storage": ["lstep", "link_init", "manager_ack", "api_ok", "follows_api",
                                 "site_builder_unwrap", "site_write_unwrap", "site_tick_i32"],
        "LibTw2.Model.Snap": ["snap_items", "uuid_of_bytes", "uuid_to_bytes"],
    },
    "components": [{"bin": "storage", "driver": "drv_storage",
                    "timeout": {"quick": 900, "thorough": 3000}}],
    "release": False,
    "rule": "see components.storage.rule",
    "trusted_base": [
        "Model/Storage.v is hand-written from snapshot/src/storage.rs (Storage: add_delta, new_builder, set_delta_tick, "
        "add_snap, the 100-entry cap), snapshot/src/manager.rs (Manager::snap*, ManagerInner::add_delta) and the sender "
        "loop of server/src/main.rs (send_snapshots for one peer: new_builder, add_item(..).unwrap(), finish, crc, "
        "game_tick.assert_i32(), add_snap, Delta::write into the 64 KiB delta_buffer (unwrap), delta_chunks); "
        "VecDeque/Vec are lists, ticks are Z; it is tied to the code by the component `storage` (the same histories "
        "through the real crate and through the extracted model, label by label)",
        "Model/Snap.v and Model/Receiver.v with their own ties (C09-C12)",
        "the sender loop is re-implemented in the harness line by line from server/src/main.rs (main.rs is a binary, "
        "not a library); its two unwraps and assert_i32 are part of the model as Panic sites; tools/gen_storage.py "
        "checks on every run that send_snapshots still makes exactly these calls in this order (and that "
        "Input.ack_snapshot still goes to Storage::set_delta_tick with the error only logged) and translates "
        "MAX_STORED_SNAPSHOT and the size of the delta buffer into Gen/StorageConsts.v",
        "one model gap, never reached by the theorems or the harness: after a failed Snap::read_with_delta the half "
        "written snapshot on top of Storage.free is not tracked (FDirty); new_builder on such a Storage is answered "
        "OutOfFuel by the model (a Storage is used either by a sender or inside a Manager)",
        "the harness compares delta bytes longer than 40 bytes and item lists longer than 120 characters by length + "
        "FNV-1a-32 (the oracle on the real code compares the full values)"],
    "assumptions": [
        "follows_api (Storage.send_api_ok, a boolean evaluated along the run): at every SendTick the tick is a fresh, "
        "larger i32 >= 0; every item is one Builder::add_item accepts (ordinal types in 1..0x3fff, 128-bit UUIDs, u16 "
        "ids, i32 data) and does not refuse (no duplicate key, <= 1024 items, <= 64 KiB, type numbers left) - main.rs "
        "unwraps the result; items of a type number with a pre-agreed size have that size (Delta::write asserts it); "
        "the packed delta fits the 64 KiB buffer of the sender loop (main.rs unwraps the CapacityError); and K09: no "
        "item keeps its raw key and changes its length against the snapshot the delta is taken from (known finding, "
        "see known_findings/C13.json - with UUID types this can happen although every (TypeId, id) keeps its length)",
        "the snapshot channel only loses, duplicates and reorders messages the sender made (no forgery: the checksum "
        "is a plain sum); the acknowledgement channel is arbitrary (forged values included)",
        "both sides use the same table of pre-agreed object sizes; the theorems hold for every table",
        "C13_error_no_advance and C13_ok_answers need no assumption: every Manager state, every message; "
        "C13_manager_total: any messages whose data are at most 64 KiB of bytes, from Manager::new()",
        "C13_full_snapshot_accepted (progress, beyond the property): the delta is against the empty snapshot and fits "
        "one message (<= 900 bytes)"],
    "explanation": "C13_agree / C13_no_panic are proved by induction over the label list with an invariant of the "
                   "link: every snapshot the Manager stores or has handed out for tick t is a copy (same items, same "
                   "registry, same checksum) of the snapshot the sender built for t; every message in flight belongs "
                   "to a transfer the sender made; a transfer in progress in the DeltaReceiver is such a transfer of "
                   "which exactly the recorded parts are held; the sender's delta base is the snapshot of the tick "
                   "it announces. The step uses the lemmas behind C09_end_to_end / C10_after_delta (re-derived from "
                   "the state invariants `good`/`bgood` for a base that is only a copy), C12's multi_first / "
                   "multi_inprog / step_wf, and C08 through C09_wire. C13_error_no_advance is a case analysis of "
                   "manager_feed. The clause of DESIGN.md 'never the tick of the failing message' is false for a "
                   "duplicate of an accepted message (OldDelta, the acknowledged tick stays) - "
                   "C13_error_never_own_tick_refuted; the exact clause is proved instead.",
}

SPEC = {
    "claimed": False,
    "gen": [],
    "theorems": [],
    "allowed_axioms": [],
    "extract": {
        "LibTw2.Model.Conn6": ["step", "needs_tick", "conn6_new"],
        "LibTw2.Model.Conn7": ["step7", "needs_tick7", "conn7_new"],
    },
    "components": [{"bin": "conn", "driver": "drv_conn", "args": ["6,6nt,7", "sender,link,fair,hostile"]}],
    "trusted_base": [], "assumptions": [], "explanation": "",
}

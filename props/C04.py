SPEC = {
    "claimed": True,
    "gen": ["consts", "bitfields", "huffman"],
    "props_files": ["C04", "C04v7"],
    "theorems": ['C04_all_histories6', 'C04_all_histories7', 'C04_bytes6', 'C04_step6', 'C04_step7', 'C04_refusal6', 'C04_refusal7', 'C04_nonvacuous', 'C04_emitted_tokens7', 'C04_bytes7', 'C04_emitted_reads_back7', 'C04_control_size7', 'C04v7_nonvacuous'],
    "allowed_axioms": [],
    "extract": {
        "LibTw2.Model.Conn6": ["step", "needs_tick", "conn6_new"],
        "LibTw2.Model.Conn7": ["step7", "needs_tick7", "conn7_new"],
    },
    "components": [{"bin": "conn", "driver": "drv_conn", "args": ["6,6nt,7", "sender,link,wrap"], "timeout": {"quick": 900, "thorough": 3000}}],
    "release": False,
    "trusted_base": ["Model/ConnCore.v, Conn6.v, Conn7.v are hand-written from net/src/connection.rs / connection7.rs; datagrams are abstract packet values with structured chunks, their encoded size is tracked in the model; the byte level is Props/C05-C06",
                     "the correspondence feeds the model the packet value the REAL reader returns for each datagram and compares every emitted datagram (parsed by the real reader), event, warning, result, needs_tick and the complete state fingerprint (hook Connection::verif_fingerprint) after every label"],
    "assumptions": ["valid_op6 / valid_op7: the API contract read off the code's own asserts (send/flush/connless only online, connect only unconnected, disconnect reason NUL-free and at most 127 bytes, feed of what the reader can return)", "the send callback never fails"],
    "explanation": 'for ALL valid histories no call panics or fails to return and every emitted datagram is well-formed (dgram_ok: <= 1400 bytes, chunk count = chunks carried <= 255, sizes within the header fields); refused sends leave the connection unchanged',
}

SPEC = {
    "claimed": False,
    "gen": [],
    "theorems": ["C18_nonvacuous"],
    "allowed_axioms": [],
    "extract": {
        "LibTw2.Model.ServerBrowse": ["parse_response", "parse_info", "is_partial_kind", "merge", "get_info",
                                      "take_info", "has_repeat"],
    },
    "components": [{"bin": "serverbrowse", "driver": "drv_serverbrowse"}],
    "release": False,
    "rule": "see components.serverbrowse.rule",
    "trusted_base": [],
    "assumptions": [],
    "explanation": "",
}

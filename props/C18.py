SPEC = {
    "claimed": True,
    "gen": ["serverbrowse"],
    "theorems": ["C18_total", "C18_merge_order_free", "C18_complete_iff", "C18_complete_without_main", "C18_sort", "C18_parsed_parts",
                 "C18_parse_i32", "C18_truncation", "K18_refuted",
                 "C18_repaired_merge_order_free", "C18_repaired_complete_iff", "C18_nonvacuous"],
    "allowed_axioms": [],
    "extract": {
        "LibTw2.Model.ServerBrowse": ["parse_response", "parse_info", "is_partial_kind", "merge", "get_info",
                                      "take_info", "has_repeat"],
    },
    "components": [{"bin": "serverbrowse", "driver": "drv_serverbrowse",
                    "timeout": {"quick": 600, "thorough": 3000}}],
    "release": True,
    "rule": "see components.serverbrowse.rule",
    "trusted_base": [
        "Model/ServerBrowse.v is hand-written from serverbrowse/src/protocol.rs, common/src/str.rs and the parts of "
        "core it relies on (str::from_utf8 acceptance set, <i32 as FromStr>, str::is_char_boundary, "
        "RangeFrom<u32>::next, derive(Ord) on ClientInfo / str ordering = byte-wise); the header constants are "
        "transcribed by hand and exercised by the correspondence run (every header, every one-byte deviation)",
        "PartialServerInfo keeps `info` and `received` private: the harness reads them from the derived Debug "
        "text (un-escaped; map_crc/map_size are only visible through get_info on complete infos)",
    ],
    "assumptions": [
        "a datagram is a list of bytes (bytes_ok) shorter than 2^31 (datagram_ok); beyond that the u32 client "
        "counter of `for j in offset..` could overflow in a debug build (site 1807)",
        "merge theorems: the parts are PartialServerInfo values of one info (same_info: same token and multi-part "
        "version, pairwise disjoint masks, a part with empty mask has no client, parts agree on the header); orders "
        "are non-empty lists of valid part indices",
        "code as it is (known finding K18): orders without a repeated part (has_repeat o = false); with the "
        "one-line repair the same theorems hold for every order (C18_repaired_*)",
        "complete_iff: the announcing part pm is in the order (for an extended info: the main part); the received "
        "clients number at most i32::MAX (get_info asserts it)",
    ],
    "explanation": "C18_total: structural case analysis of the model, all byte strings < 2^31 bytes, every panic site "
                   "(slice bounds, transmute asserts, ArrayString overflow, assert_u32, both `1 << n`, the u32 range "
                   "counter) shown unreachable and the fuel sufficient. Merge theorems: induction over the order list "
                   "with one invariant (carrier part with header priority for the main part, clients = those of the "
                   "merged parts each once, mask). The model is tied to the crate by running both on the same "
                   "datagrams and merge histories; the oracle asserts the property's statements on the real code.",
}

SPEC = {
    "claimed": True,
    "gen": ["huffman"],
    "theorems": ["C07_builtin_table", "C07_consts", "C07_builtin_wf", "C07_roundtrip", "C07_builtin_roundtrip", "C07_roundtrip_vec",
                 "C07_spec", "C07_len", "C07_decoder_total", "C07_ref_compress", "C07_builtin_tree", "C07_ref_decompress",
                 "C07_builtin_is_built",
                 "C07_from_frequencies_total_refuted", "C07_nonvacuous",
                 "C07_from_frequencies_wf", "C07_from_frequencies_tree", "C07_from_frequencies_outcome",
                 "C07_from_frequencies_fails_only_by_stack", "C07_from_frequencies_never_errs", "C07_from_frequencies_roundtrip",
                 "C07_from_frequencies_spec", "C07_from_frequencies_ref_compress", "C07_from_frequencies_ref_decompress",
                 "C07build_nonvacuous"],
    "props_files": ["C07", "C07build"],
    "allowed_axioms": [],
    "extract": {
        "LibTw2.Model.Huffman": ["of_list", "compress", "compress_into_vec", "compressed_len", "compressed_len_bug",
                                 "decompress", "dec_fuel", "decompress_into_vec", "from_frequencies", "wf_table",
                                 "repr_of"],
        "LibTw2.Model.HuffmanRef": ["ref_compress", "ref_decompress", "tree_table"],
        "LibTw2.Gen.HuffTable": ["teeworlds_table"],
    },
    "components": [{"bin": "huffman", "driver": "drv_huffman", "timeout": {"quick": 600, "thorough": 3000}}],
    "release": False,
    "rule": "see components.huffman.rule",
    "trusted_base": [
        "Model/Huffman.v is hand-written from huffman/src/lib.rs (compress_impl_unsafe, decompress_unsafe, "
        "compressed_len*, the Vec wrappers, from_frequencies_array); the table is a length plus a PositiveMap "
        "behind `lookup` (C07_builtin_table ties it to the node list of teeworlds.rs)",
        "tools/gen_huffman.py regenerates the built-in table, data/frequencies and the literals of lib.rs "
        "(C07_consts) on every run and raises on any unexpected line",
        "Model/HuffmanRef.v (C++ CHuffman::Compress / Decompress / the decode LUT) is hand-written from "
        "huffman.cpp and run against the real C++ (crate libtw2-huffman-reference) on the rcomp / rdec cases; that "
        "the C++ reference holds the same code words as the table is checked by the harness, not proved",
    ],
    "assumptions": [
        "input bytes are u8 (bytes_ok)",
        "the table satisfies the decidable check wf_table: proved for the built-in table (C07_builtin_wf, vm_compute); "
        "for EVERY table Huffman::from_frequencies returns (C07_from_frequencies_wf, Props/C07build.v: loop invariant of the "
        "combining loop + induction over the tree for the explicit-stack walk; the only failure is the 24-entry stack, K07); "
        "the extracted checker still runs on every table the harness builds",
        "usize arithmetic of compressed_bit_len does not wrap (inputs below 2^64 / 24 bytes)",
        "C07_ref_compress: the C++ side holds the same (bits, num_bits) per symbol as the table and its buffer has "
        "at least one byte; the frequency sum stays below 2^31 (the reference keeps frequencies in a C int)",
    ],
    "explanation": "theorems quantify over every well-formed table, every byte string, every capacity and every tail "
                   "(induction, not enumeration): round trip for both output forms, exact predicted lengths = exact "
                   "capacity need, decoder total with an explicit fuel bound / never above the capacity / capacity "
                   "error only, C++ Compress byte-identical to compress_bug; the built-in table is well-formed and is "
                   "what from_frequencies builds from data/frequencies (vm_compute on the regenerated data). "
                   "The model is tied to huffman/src/lib.rs and to the C++ reference by running all three on the same "
                   "cases (every string of length <= 2 as compressor and as decoder input, structured and random up to "
                   "8 KiB, truncations, tails, garbage, capacities 0..len+1, tables from random frequency vectors).",
    "level_text": "proof for all inputs over every well-formed table (built-in table proved well-formed; other tables "
                  "checked one by one with the verified checker); agreement with the C++ decoder by differential "
                  "testing only",
    "level_note": "K07 (known finding): Huffman::from_frequencies panics for every frequency vector whose tree is higher "
                  "than 24 (e.g. 26 or more zero counts, all u32::MAX) - C07_from_frequencies_total_refuted; the codec "
                  "theorems hold for every table that is built. C07_ref_decompress (C++ decoder as a Gallina model) is "
                  "not proved: harness correspondence only.",
}

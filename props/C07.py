SPEC = {
    "claimed": False,
    "gen": ["huffman"],
    "theorems": [],
    "allowed_axioms": [],
    "extract": {
        "LibTw2.Model.Huffman": ["of_list", "compress", "compress_into_vec", "compressed_len", "compressed_len_bug",
                                 "decompress", "dec_fuel", "decompress_into_vec", "from_frequencies", "wf_table",
                                 "repr_of"],
        "LibTw2.Gen.HuffTable": ["teeworlds_table"],
    },
    "components": [{"bin": "huffman", "driver": "drv_huffman", "timeout": {"quick": 600, "thorough": 3000}}],
    "release": False,
}

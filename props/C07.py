SPEC = {
    "claimed": True,
    "gen": ["huffman"],
    "theorems": ["C07_builtin_table", "C07_consts", "C07_builtin_wf", "C07_roundtrip", "C07_roundtrip_vec",
                 "C07_spec", "C07_len", "C07_decoder_total", "C07_builtin_is_built",
                 "C07_from_frequencies_total_refuted", "C07_nonvacuous"],
    "allowed_axioms": [],
    "extract": {
        "LibTw2.Model.Huffman": ["of_list", "compress", "compress_into_vec", "compressed_len", "compressed_len_bug",
                                 "decompress", "dec_fuel", "decompress_into_vec", "from_frequencies", "wf_table",
                                 "repr_of"],
        "LibTw2.Gen.HuffTable": ["teeworlds_table"],
    },
    "components": [{"bin": "huffman", "driver": "drv_huffman", "timeout": {"quick": 600, "thorough": 3000}}],
    "release": False,
}

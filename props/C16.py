SPEC = {
    "claimed": False,
    "gen": [],
    "theorems": ["C16_nonvacuous"],
    "allowed_axioms": [],
    "extract": {
        "LibTw2.Model.Datafile": ["reader_new", "item_types", "item_type_indices", "item_type_items", "items",
                                  "num_data", "read_data", "find_item", "serialize_stored", "group_items",
                                  "words_of_bytes"],
    },
    "components": [{"bin": "datafile", "driver": "drv_datafile", "timeout": {"quick": 600, "thorough": 3000}}],
    "release": False,
}

SPEC = {
    "claimed": True,
    "gen": ["mapitems"],
    "theorems": ["C16_open_total", "C16_accessors_total", "C16_data_inside", "C16_wellformed",
                 "C16_map_total", "C16_from_slice_rest_total",
                 "C16_fixed_unaligned_sizes", "C16_fixed_start_min", "C16_nonvacuous"],
    "allowed_axioms": [],
    "extract": {
        "LibTw2.Model.Datafile": ["reader_new", "item_types", "item_type_indices", "item_type_items", "items",
                                  "num_data", "read_data", "find_item", "serialize_stored", "group_items",
                                  "words_of_bytes"],
        "LibTw2.Model.MapReader": ["map_version", "map_check_version", "map_info", "map_group_indices", "map_group",
                                   "map_layer", "map_image", "map_game_layers", "map_string", "map_image_name",
                                   "map_settings", "map_settings_list", "map_tiles_raw", "map_tiles", "map_read"],
        "LibTw2.Gen.MapItems": ["MAP_ITEMTYPE_IMAGE", "size_of_Tile", "size_of_TeleTile", "size_of_SpeedupTile",
                                "size_of_SwitchTile", "size_of_TuneTile"],
    },
    "components": [{"bin": "datafile", "driver": "drv_datafile", "timeout": {"quick": 900, "thorough": 3000}}],
    "release": False,
    "rule": "see components.datafile.rule",
    "trusted_base": [
        "Model/Datafile.v is hand-written from datafile/src/raw.rs, format.rs, bitmagic.rs, common/src/slice.rs "
        "(after the two fix: commits f7ac089, ccb8c9e); Model/MapReader.v from map/src/reader.rs and format.rs over the "
        "translated table Gen/MapItems.v (tools/gen_mapitems.py: struct versions/offsets/field offsets, constants, tile sizes; "
        "the translator also pins the text of MapItemExt::from_slice_rest)",
        "the writer specification Datafile.serialize is a transcription of doc/datafile.md; the Rust harness carries a second, "
        "independent transcription and the two are compared byte for byte on every generated item/data set",
        "zlib (libz through libtw2-zlib-minimal) is a parameter `uncompress : capacity -> source -> ZOk bytes | ZErr code` of the model; "
        "in the correspondence run it is instantiated by the graph the harness records by calling zlib directly",
        "file I/O: the model reads a byte list (CallbackNew::read = min(wanted, remaining), like file.rs read_retry; seek_read inside "
        "the bytes behind the seek base); datafile::Reader::open on a temp file is checked against raw::Reader::new on memory by the oracle",
        "little-endian target (from_little_endian is the identity); usize is 64 bits",
    ],
    "assumptions": [
        "input bytes are u8 (bytes_ok)",
        "accessor arguments are the ones the API hands out: item / item type / data indices below the announced counts, u16 ids; "
        "map group / layer / image indices from group_indices, a decoded group's layer range, the image item range "
        "(Reader::item(i), read_data(i), map group(i)/layer(i) with foreign indices panic by design: slice index / assert on the type id)",
        "C16_wellformed: type ids ascending in the file (the reader demands `type_id > previous`; doc/datafile.md only says unique -- "
        "the reference writer emits ascending ids), u16 type ids and ids, i32 words, file and each data item below 2 GiB, "
        "and for version 4 uncompress (len d) (compress d) = ZOk d",
        "allocation of attacker-announced sizes (Vec::with_capacity up to 2 GiB) is outside the model; only the capacity-overflow panic is modelled",
    ],
    "explanation": "Theorems quantify over every byte string (open / accessors / data / map totality) and over every well-formed "
                   "item/data set in both versions and both size conventions (round trip), proved by induction over the tables; "
                   "panics are explicit outcomes of the model at every index, sub-slice, assert!, assert_* cast, unreachable!, unwrap "
                   "and debug-overflow site. The model is tied to the code by running both on ~23k (quick) files: independent-writer "
                   "files, every 32-bit field at every boundary value, every truncation, corrupt / oversized / undersized compressed "
                   "blocks, consistent-but-odd structures, map-shaped files with every index/count/version field at its boundaries, "
                   "random bytes; each through raw::Reader (memory), datafile::Reader::open (file) and every map accessor.",
    "level_note": "Map layer: modelled and proved total -- MapItemExt::from_slice_rest (all 23 structs of the translated table), "
                  "get_index/get_index_opt, Group/LayerTilemap(+ExtraRace)/LayerQuads/DdraceLayerSounds/Layer/Image/Info::from_raw, "
                  "Reader::version/check_version/info/group_indices/group/layer/image/game_layers, string, image_name, settings + "
                  "SettingsIter, image_data, the five *_layer_tiles_raw (length check, tile count) and *_layer_tiles (Array2 shape = "
                  "height*width check). Covered by correspondence / oracle only: the byte reinterpretation of tile vectors "
                  "(common::vec::transmute; only counts and shapes are compared), GameLayers' index helpers (game()/teleport()/.. are "
                  "called under the panic guard), EnvpointExt::from_slice and the item kinds no Reader accessor decodes "
                  "(MapItemVersionV1, MapItemImageV2, MapItemEnvelopeV1/V2/V1Legacy, MapItemEnvpointV1/V2, MapItemDdraceSoundV1, "
                  "MapItemInfoV1ExtraRace: present in the translated table and covered by C16_from_slice_rest_total, but nothing in "
                  "reader.rs reads them), debug_dump and the Debug impls.",
}

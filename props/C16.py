SPEC = {
    "claimed": False,
    "gen": ["mapitems"],
    "theorems": ["C16_open_total", "C16_accessors_total", "C16_data_inside", "C16_wellformed",
                 "C16_fixed_unaligned_sizes", "C16_fixed_start_min", "C16_nonvacuous"],
    "allowed_axioms": [],
    "extract": {
        "LibTw2.Model.Datafile": ["reader_new", "item_types", "item_type_indices", "item_type_items", "items",
                                  "num_data", "read_data", "find_item", "serialize_stored", "group_items",
                                  "words_of_bytes"],
        "LibTw2.Model.MapReader": ["map_version", "map_check_version", "map_info", "map_group_indices", "map_group",
                                   "map_layer", "map_image", "map_game_layers", "map_string", "map_image_name",
                                   "map_settings", "map_settings_list", "map_tiles_raw", "map_tiles", "map_read"],
        "LibTw2.Gen.MapItems": ["MAP_ITEMTYPE_IMAGE", "size_of_Tile", "size_of_TeleTile", "size_of_SpeedupTile",
                                "size_of_SwitchTile", "size_of_TuneTile"],
    },
    "components": [{"bin": "datafile", "driver": "drv_datafile", "timeout": {"quick": 600, "thorough": 3000}}],
    "release": False,
}

SPEC = {
    "claimed": True,
    "gen": [],
    "theorems": ['C11_total', 'C11_limits', 'C11_reusable', 'C11_alloc_partial', 'C11_nonvacuous'],
    "allowed_axioms": [],
    "extract": {
        "LibTw2.Model.Snap": ['add_item', 'raw_items', 'raw_item', 'crc', 'raw_write_to_ints', 'raw_write_bytes', 'raw_read_from_ints', 'raw_read_bytes', 'create_raw', 'raw_read_with_delta', 'k09', 'delta_write_to_ints', 'delta_write_bytes', 'delta_read_from_ints', 'delta_read_bytes', 'builder_new', 'builder_add', 'builder_finish', 'snap_recycle', 'snap_items', 'snap_item', 'snap_read_from_ints', 'snap_read_bytes', 'snap_read_with_delta', 'raw_empty', 'snap_empty', 'delta_empty', 'uuid_of_bytes', 'uuid_to_bytes', 'key_to_raw_type_id', 'key_to_id'],
    },
    "components": [{"bin": "snap", "driver": "drv_snap", "args": ["c11"], "timeout": {"quick": 1200, "thorough": 6000}}],
    "release": False,
    "rule": "see components.snap.rule",
    "trusted_base": ['Model/Snap.v is hand-written from snapshot/src/snap.rs and snapshot/src/format.rs (RawSnap as a key-sorted association list + flat buffer, every assert/unwrap/slice/debug overflow an explicit Panic site); it is tied to the code by the component `snap` (same scripts through the real crate and the extracted model)', "write_impl is modelled as 'all ints, then the capacity check' (a CapacityError and a later panic can only compete on snapshots that break raw_ok, which never happens: snap_ints_spec)", 'varints: Model/Varint.v and its C08 theorems (read_write_int, read_int_arith, read_int_a_consumes)'],
    "assumptions": ['input bytes are u8 (bytes_ok), input words are i32, inputs are shorter than 2^31-1 items (the i32 update counter of Delta::read_impl)', 'item lookups use ordinal type ids in 1..0x3fff (Snap::item asserts it)', 'Delta::create between two accepted snapshots that share a key with different lengths panics: known finding K09 (stated in C11_reusable)', 'allocation: not a theorem; the harness meters the real allocator (peak live bytes while reading <= 48 x input bytes + 4 KiB) on every hostile input'],
    "explanation": 'C11_total: no reader (snapshot or delta, ints or bytes) and no read_with_delta on accepted values ends in Panic or OutOfFuel; C11_limits: every accepted snapshot has <= 1024 items and serialises to <= 64 KiB; C11_reusable: an accepted snapshot written and read back cannot be told apart (items, item, crc), enumerate/lookup/recycle/add_item/create/apply run on it without panic (K09 aside). `accepted` is the inductive closure of the readers, read_with_delta and Delta::create. On the unfixed tree refuted by defects #8, #9, #10 (fixed: ebb1170, ba61ffa, 4fa335f).',
}

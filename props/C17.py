SPEC = {
    "claimed": False,
    "gen": ["teehistorian"],
    "theorems": ["C17_frag_generic", "C17_parsers_stable", "C17_fragmentation", "C17_total", "C17_ticks",
                 "C17_running_sums", "C17_sums_closed_form", "C17_pins", "C17_nonvacuous", "K17_pin"],
    "allowed_axioms": [],
    "extract": {
        "LibTw2.Model.Teehistorian": ["read_all", "fuel_for", "reader_cids_end"],
    },
    "components": [{"bin": "teehistorian", "driver": "drv_teehistorian",
                    "timeout": {"quick": 900, "thorough": 3000}}],
    "release": False,
}

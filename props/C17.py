SPEC = {
    "claimed": True,
    "pins": {"gen": ["Gen/TeehistTable.v", "src_pins"], "model": ["Model/Teehistorian.v", "hand_pins"]},
    "gen": ["teehistorian"],
    "theorems": ["C17_frag_generic", "C17_parsers_stable", "C17_fragmentation", "C17_total", "C17_ticks",
                 "C17_running_sums", "C17_sums_closed_form", "C17_nonvacuous", "K17_pin"],
    "allowed_axioms": [],
    "extract": {
        "LibTw2.Model.Teehistorian": ["read_all", "fuel_for", "reader_cids_end"],
    },
    "components": [{"bin": "teehistorian", "driver": "drv_teehistorian",
                    "timeout": {"quick": 900, "thorough": 3000}}],
    "release": False,
    "rule": "see components.teehistorian.rule",
    "trusted_base": [
        "Model/Teehistorian.v is hand-written from teehistorian/src/raw.rs and format/item.rs; the constant tables "
        "(message ids, 20 extension UUIDs, field lists and cid-ness of the 23 pass-through structs, magic) are "
        "regenerated from the Rust source by tools/gen_teehistorian.py, and the source text of every hand-modelled "
        "function is tied by the correspondence run; in addition its source text is hashed (Gen src_pins vs. Model hand_pins): ./check prints a note when the hashes differ (a rewrite alone is not reported as a violation)",
        "serde_json / chrono / str::parse on the header's JSON text are outside the model: an arbitrary function "
        "`hdr` from the text to (version | HeaderError); the harness tells the model the value the real "
        "format::read_header computed",
        "Buffer compaction/growth depends on Vec capacity (allocator-dependent): modelled as one arbitrary boolean per "
        "read; all theorems hold for every choice",
        "memory use of VecMap is not modelled (known finding K17)",
    ],
    "assumptions": [
        "a fresh Buffer (Buffer::new or clear) is passed to Reader::new",
        "the read callback returns Ok (callback errors are passed through unchanged and end the session)",
        "C17_ticks / C17_running_sums speak about sessions that end with Ok(None) (valid streams); "
        "streams that end in an error are covered by C17_fragmentation and C17_total",
        "memory allocation succeeds (see K17: client ids are not bounded)",
    ],
    "explanation": "frag_independent is proved once for any client of the buffer over prefix-stable parsers "
                   "(induction over the fragment list), instantiated with the concrete header/kind/item parsers whose "
                   "stability is proved (no hypothesis left); totality, tick nesting/numbering against the literally "
                   "transcribed pseudo-code of doc/teehistorian.md and the running sums are proved for all streams and "
                   "all read schedules. The model is tied to the code by running both on every generated stream under "
                   "every fragmentation (full item text incl. the final error and max_cid) and by the translator.",
    "level_text": "proof over all byte streams, all fragmentations (sizes, zero-length reads, compactions) and all "
                  "header verdicts; correspondence on generated server histories, truncations, corruptions, garbage",
    "level_note": "known finding K17 (unbounded client id => VecMap allocation) is outside the model and probed in a child process",
}

SPEC = {
    "claimed": False,
    "gen": ["teehistorian"],
    "theorems": ["C17_pins"],
    "allowed_axioms": [],
    "extract": {
        "LibTw2.Model.Teehistorian": ["read_all", "fuel_for", "doc_ticks", "dmsg_of", "reader_cids_end"],
    },
    "components": [{"bin": "teehistorian", "driver": "drv_teehistorian"}],
    "release": False,
}

SPEC = {
    "claimed": True,
    "gen": [],
    "theorems": ["C08_roundtrip", "C08_shortest", "C08_fails_only_by_end", "C08_doc",
                 "C08_warnfree_iff_canonical", "C08_fields", "C08_capacity", "C08_demo_finish",
                 "C08_nonvacuous"],
    "allowed_axioms": [],
    "extract": {
        "LibTw2.Model.Varint": ["read_int", "write_int"],
        "LibTw2.Model.Packer": ["pack", "unpack_step", "finish_warns"],
    },
    "components": [{"bin": "packer", "driver": "drv_packer"}],
    "release": True,
    "rule": "see components.packer.rule",
    "trusted_base": ["Model/Varint.v and Model/Packer.v are hand-written from packer/src/lib.rs; "
                     "BufferRef::write is modelled as 'write the fitting prefix' (C19 covers the buffer crate)"],
    "assumptions": ["input bytes are u8 (bytes_ok)", "string fields are NUL-free (the code asserts it)",
                    "a rest field is the last field"],
    "explanation": "theorems quantify over all i32 / all byte strings / all field lists and capacities; "
                   "the model is tied to packer/src/lib.rs by running both on the same cases",
}

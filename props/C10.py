SPEC = {
    "claimed": True,
    "gen": [],
    "theorems": ['C10_observational', 'C10_after_delta', 'C10_recycle', 'C10_nonvacuous'],
    "allowed_axioms": [],
    "extract": {
        "LibTw2.Model.Snap": ['add_item', 'raw_items', 'raw_item', 'crc', 'raw_write_to_ints', 'raw_write_bytes', 'raw_read_from_ints', 'raw_read_bytes', 'create_raw', 'raw_read_with_delta', 'k09', 'delta_write_to_ints', 'delta_write_bytes', 'delta_read_from_ints', 'delta_read_bytes', 'builder_new', 'builder_add', 'builder_finish', 'snap_recycle', 'snap_items', 'snap_item', 'snap_read_from_ints', 'snap_read_bytes', 'snap_read_with_delta', 'raw_empty', 'snap_empty', 'delta_empty', 'uuid_of_bytes', 'uuid_to_bytes', 'key_to_raw_type_id', 'key_to_id'],
    },
    "components": [{"bin": "snap", "driver": "drv_snap", "args": ["c10"], "timeout": {"quick": 1200, "thorough": 6000}}],
    "release": False,
    "rule": "see components.snap.rule",
    "trusted_base": ['Model/Snap.v is hand-written from snapshot/src/snap.rs and snapshot/src/format.rs (RawSnap as a key-sorted association list + flat buffer, every assert/unwrap/slice/debug overflow an explicit Panic site); it is tied to the code by the component `snap` (same scripts through the real crate and the extracted model)', "write_impl is modelled as 'all ints, then the capacity check' (a CapacityError and a later panic can only compete on snapshots that break raw_ok, which never happens: snap_ints_spec)", 'varints: Model/Varint.v and its C08 theorems (read_write_int, read_int_arith, read_int_a_consumes)'],
    "assumptions": ['builder calls are valid (ops_ok): ordinal type ids in 1..0x3fff (Builder::add_item asserts it), ids u16, data i32, UUIDs 128-bit', 'C10_after_delta: the two snapshots are outside K09 on their raw keys (two independent builders may number the same UUID types differently)', "C10_recycle: 'succeeds' is stated with its exact side conditions (number space not exhausted, item/size limits leave room for the registry item and the item)"],
    "explanation": "C10_observational: for every list of valid Builder::add_item calls (any mix of ordinal and UUID types, failed calls included) the finished snapshot written as ints or bytes reads back without warning to a snapshot with the same items(), the same item(type,id) for every ordinal or UUID type and the same crc; C10_after_delta: the same for read_with_delta(A, create(A,B)); C10_recycle: recycle of any such copy returns a builder with the same registry and next number, known types keep their number, a new UUID type gets a number no type had. Proved via the builder invariant bstate (Proofs/SnapBuilder*.v) and build_from_raw's characterisation (Proofs/SnapReg.v). On the unfixed tree this was refuted by defect #8 (fixed: ebb1170).",
}

SPEC = {
    "claimed": False,
    "gen": ["gamenet"],
    "theorems": ["C14_codecs_match_tw05", "C14_codecs_match_tw06", "C14_codecs_match_tw07",
                 "C14_codecs_match_ddnet", "C14_wf_all", "C14_roundtrip", "C14_msg_roundtrip",
                 "C14_generated_roundtrip", "C14_rejects", "C14_rejects_short", "C14_total",
                 "C14_obj_words", "C14_k14_objects", "K14_refuted", "K14_refuted_length", "C14_nonvacuous"],
    "allowed_axioms": [],
    "extract": {
        "LibTw2.Model.Codec": ["decode_sysgame", "decode_connless", "encode_msg", "find_codec", "decode_snap_obj",
                               "encode_obj_bytes", "obj_size"],
        "LibTw2.Gen.Rs_tw05": ["codecs", "objs"],
        "LibTw2.Gen.Rs_tw06": ["codecs", "objs"],
        "LibTw2.Gen.Rs_tw07": ["codecs", "objs"],
        "LibTw2.Gen.Rs_ddnet": ["codecs", "objs"],
    },
    "components": [{"bin": "codec", "driver": "drv_codec", "timeout": {"quick": 600, "thorough": 3000}}],
    "release": False,
}

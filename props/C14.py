SPEC = {
    "claimed": True,
    "gen": ["gamenet"],
    "theorems": ["C14_codecs_match_tw05", "C14_codecs_match_tw06", "C14_codecs_match_tw07",
                 "C14_codecs_match_ddnet", "C14_wf_all", "C14_roundtrip", "C14_msg_roundtrip",
                 "C14_generated_roundtrip", "C14_rejects", "C14_rejects_short", "C14_total",
                 "C14_obj_words", "C14_obj_roundtrip", "C14_obj_rejects", "C14_k14_objects",
                 "K14_refuted", "K14_refuted_length", "C14_nonvacuous"],
    "allowed_axioms": [],
    "extract": {
        "LibTw2.Model.Codec": ["decode_sysgame", "decode_connless", "encode_msg", "encode", "decode_w", "tag_codec", "find_codec", "decode_snap_obj",
                               "encode_obj_bytes", "obj_size"],
        "LibTw2.Gen.Rs_tw05": ["codecs", "objs"],
        "LibTw2.Gen.Rs_tw06": ["codecs", "objs"],
        "LibTw2.Gen.Rs_tw07": ["codecs", "objs"],
        "LibTw2.Gen.Rs_ddnet": ["codecs", "objs"],
    },
    "components": [{"bin": "codec", "driver": "drv_codec", "timeout": {"quick": 600, "thorough": 3000}}],
    "release": False,
    "rule": "see components.codec.rule",
    "covered": "all four generated crates (teeworlds-0.5, 0.6, 0.7, ddnet): every system, game and connless "
               "message, every snapshot object (as words) and the msg_encoding form of the objects embedded in "
               "messages; message ids, connless ids, obj_size, enum tables",
    "not_covered": [
        "encode is run on the real code for every value decode can produce plus a hand-built set of values it "
        "cannot produce (failing asserts, None, NUL in a string, capacity/panic order); not for every codec",
        "gamenet/<proto>/src/msg/mod.rs (decode / decode_msg wrappers over the same dispatchers) and traits.rs "
        "are not driven separately",
        "a `flags` member is a plain int in datatypes.py (NetFlag adds nothing to NetIntAny): undefined flag "
        "bits are accepted by the description's meaning and by the code; this is not counted as a violation",
    ],
    "trusted_base": [
        "tools/gen_gamenet.py reads the generated Rust (token level, raises on any unknown item / statement / "
        "expression form) and the JSON descriptions (raises on unknown keys / kinds); its Rust side is exercised "
        "by the correspondence run (the model interprets the tables read from the Rust)",
        "Model/Codec.v gives each member operation its meaning; reading/writing goes through Model/Packer.v (C08)",
        "repr(C) layout rule (fields in order, each aligned, size rounded to the alignment; little-endian i32) is "
        "written in Model/Codec.v and checked against the real structs by the correspondence run on x86_64",
        "i32::from_str / Display for i32 (int_from_string, string_from_int) are modelled by parse_int / print_int",
    ],
    "assumptions": ["input bytes are u8 and input words are i32 (bytes_ok, is_i32)",
                    "described values (well_typed): strings NUL-free, data at most i32::MAX bytes, optional members present "
                    "(the generated encode asserts is_some)",
                    "a member that takes the rest of the message is the last member (holds for every generated codec: C14_wf_all)"],
    "explanation": "C14_codecs_match_<proto> re-decides, against the current Rust and JSON, that every generated codec is "
                   "the described one (a difference names the codec); C14_roundtrip / C14_rejects / C14_total are proved "
                   "by induction over the member list for every well-formed codec and every described value, and "
                   "C14_wf_all shows every generated codec is well-formed; the interpreter's meaning of each member "
                   "operation is tied to the real crates by running System/Game/Connless::decode+encode and "
                   "SnapObj::decode_obj+encode on cases built from the descriptions",
    "level_text": "proof over all codecs/values + translator equality re-decided per run + differential run on the real crates",
    "level_note": "K14 (objects with a bool member) is a known finding: C14_obj_words holds for objects without bool "
                  "members, K14_refuted / K14_refuted_length exhibit the failure on the model, the harness reproduces it",
}

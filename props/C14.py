SPEC = {
    "claimed": False,
    "gen": ["gamenet"],
    "theorems": ["C14_codecs_match_tw05"],
    "allowed_axioms": [],
    "extract": {
        "LibTw2.Model.Codec": ["decode_sysgame", "decode_connless", "encode_msg", "decode_snap_obj",
                               "encode_obj_bytes", "obj_size"],
        "LibTw2.Gen.Rs_tw05": ["codecs", "objs"],
        "LibTw2.Gen.Rs_tw06": ["codecs", "objs"],
        "LibTw2.Gen.Rs_tw07": ["codecs", "objs"],
        "LibTw2.Gen.Rs_ddnet": ["codecs", "objs"],
    },
    "components": [{"bin": "codec", "driver": "drv_codec", "timeout": {"quick": 600, "thorough": 3000}}],
    "release": False,
}
